(* C01  Winnability verdicts are exact.
   Full statement (kept visible): for every connected loopless multigraph g and every integer divisor D,
     (T) exists fuel b r o, ewd fuel g D opt = Done (b, r, o)                       [the call terminates]
     (E) forall fuel b r o, ewd fuel g D opt = Done (b, r, o) -> (b = true <-> winnable (Vg g) (mult g) (nthZ D))
   for opt in {false, true}; both modes agree.
   Proved here in full: C01_exact below is exactly this statement (termination by the weighted-potential argument of Link/Termination.v).
   The intermediate statements (plain mode for every well-formed multigraph, optimized mode given termination) are kept as well. *)
From Coq Require Import ZArith List Bool.
Import ListNotations.
From CF Require Import ListAux Defs Core EwdLink DharLink RankLink Termination.
Open Scope Z_scope.

Definition C01_full_statement : Prop :=
  forall g D opt, wfb g = true -> connected_b g = true -> (0 < nv g)%nat -> length D = nv g ->
    (exists fuel b r o, ewd fuel g D opt = Done (b, r, o)) /\
    (forall fuel b r o, ewd fuel g D opt = Done (b, r, o) -> (b = true <-> winnable (Vg g) (mult g) (nthZ D))).

Theorem C01_plain_exact : forall g, wfb g = true -> forall fuel D b r o, length D = nv g -> (0 < nv g)%nat ->
  ewd fuel g D false = Done (b, r, o) -> (b = true <-> winnable (Vg g) (mult g) (nthZ D)).
Proof. exact ewd_plain_exact. Qed.
Print Assumptions C01_plain_exact.

Theorem C01_optimized_exact_partial : forall g, wfb g = true -> forall fuel D b r o, length D = nv g -> (0 < nv g)%nat ->
  (exists fuel0 x, ewd_q fuel0 g (argmin D) D = Done x) ->
  ewd fuel g D true = Done (b, r, o) -> (b = true <-> winnable (Vg g) (mult g) (nthZ D)).
Proof. exact ewd_opt_exact. Qed.
Print Assumptions C01_optimized_exact_partial.

Theorem C01_modes_agree : forall g, wfb g = true -> forall f1 f2 D b1 r1 o1 b2 r2 o2, length D = nv g -> (0 < nv g)%nat ->
  ewd f1 g D false = Done (b1, r1, o1) -> ewd f2 g D true = Done (b2, r2, o2) -> b1 = b2.
Proof. exact ewd_modes_agree. Qed.
Print Assumptions C01_modes_agree.

(* the two shortcuts of optimized mode, as statements about the mathematics *)
Theorem C01_shortcut_negative_degree : forall g, wfb g = true -> forall D, degD g D < 0 -> ~ winnable (Vg g) (mult g) (nthZ D).
Proof. exact shortcut_neg. Qed.
Print Assumptions C01_shortcut_negative_degree.

(* the call terminates: on every connected multigraph the reduction returns for some fuel (hence for every larger fuel, by monotonicity) *)
Theorem C01_terminates : forall g, wfb g = true -> connected_b g = true -> forall q D, In q (Vg g) -> length D = nv g ->
  exists fuel x, ewd_q fuel g q D = Done x.
Proof. exact ewd_q_terminates. Qed.
Print Assumptions C01_terminates.
(* the full statement *)
Theorem C01_exact : forall g D opt, wfb g = true -> connected_b g = true -> (0 < nv g)%nat -> length D = nv g ->
    (exists fuel b r o, ewd fuel g D opt = Done (b, r, o)) /\
    (forall fuel b r o, ewd fuel g D opt = Done (b, r, o) -> (b = true <-> winnable (Vg g) (mult g) (nthZ D))).
Proof. intros g D opt Hwf Hc Hn HL.
  assert (HT : exists fuel0 x, ewd_q fuel0 g (argmin D) D = Done x) by (apply ewd_q_terminates; auto; now apply argmin_in).
  split.
  - destruct HT as [fuel [[[b R] B] H]]. exists fuel. unfold ewd. destruct (opt && (degD g D <? 0)); [eauto|]. destruct (opt && (genus_g g <=? degD g D)); [eauto|]. rewrite H. eauto.
  - intros fuel b r o H. destruct opt; [eapply ewd_opt_exact; eauto|eapply ewd_plain_exact; eauto]. Qed.
Print Assumptions C01_exact.
Theorem C01_full_statement_holds : C01_full_statement.
Proof. exact C01_exact. Qed.
Print Assumptions C01_full_statement_holds.

(* regression statement for the repaired defect d1: a single borrowing pass does not clear the debt off q *)
Definition P3 : graph := [[0;1;0];[1;0;1];[0;1;0]].
Theorem send_debt_single_pass_refuted :
  exists g q D D', wfb g = true /\ connected_b g = true /\
    concentrate_single_pass 100 g q (default_ord g q) D = Done D' /\ exists v, v <> q /\ nthZ D' v < 0.
Proof. exists P3, 0%nat, [0;-1;0], [-1;1;-1]. repeat split; try (vm_compute; reflexivity). exists 2%nat. split; [discriminate|vm_compute; reflexivity]. Qed.
Print Assumptions send_debt_single_pass_refuted.

(* non-vacuity: the hypotheses are met by concrete runs, one winnable and one not *)
Example C01_nonvacuous :
  wfb P3 = true /\ connected_b P3 = true /\
  ewd 100 P3 [0;-1;1] false = Done (true, Some [0;0;0], Some [1;0;2]%nat) /\
  ewd 100 P3 [0;-1;0] false = Done (false, Some [0;-1;0], Some [1;0;2]%nat) /\
  ewd 100 P3 [0;-1;0] true = Done (false, None, None).
Proof. repeat split; vm_compute; reflexivity. Qed.
