(* C03  Rank equals the Baker-Norine rank in both calculation modes.
   Plain mode: proved (every fuel on which the model returns). Optimized mode: proved relative to Riemann-Roch, which enters as two explicit
   hypotheses in the statement (C03_rank_optimized_partial); the abstract core of Riemann-Roch (RR_iff) is proved from the burning certificate
   and the K-symmetry of the unwinnable divisors of degree g-1; the glue from C09/C11 to those two facts is not finished (partial). *)
From Coq Require Import ZArith List Bool Permutation.
Import ListNotations.
From CF Require Import ZSum ListAux Defs Core RankLink RiemannRoch.
Open Scope Z_scope.

(* plain mode: -1 exactly when unwinnable, otherwise the largest k with D - E winnable for every effective E of degree k *)
Theorem C03_rank_plain : forall g, wfb g = true -> (0 < nv g)%nat -> forall kfuel fuel D r, length D = nv g ->
  rank_plain kfuel fuel g D = Done r -> is_rank (Vg g) (mult g) (nthZ D) r.
Proof. exact rank_plain_spec. Qed.
Print Assumptions C03_rank_plain.
(* that value is unique, so every correct way of computing it agrees *)
Theorem C03_rank_unique : forall g, wfb g = true -> (0 < nv g)%nat -> forall D r r', is_rank (Vg g) (mult g) D r -> is_rank (Vg g) (mult g) D r' -> r = r'.
Proof. intros g _. apply is_rank_unique. Qed.
Print Assumptions C03_rank_unique.
(* the verdict for one k does not depend on the order in which the sub-divisors are evaluated (worker pool vs sequential fallback, early exit) *)
Theorem C03_pool_independent : forall g, wfb g = true -> (0 < nv g)%nat -> forall w, exact g w -> forall fuel Ds Ds' b b', Permutation Ds Ds' ->
  (forall E, In E Ds -> length E = nv g) ->
  fold_left (wstep g w fuel) Ds (Done true) = Done b -> fold_left (wstep g w fuel) Ds' (Done true) = Done b' -> b = b'.
Proof. intros g Hwf Hn w Hw. exact (pool_independent g w Hw). Qed.
Print Assumptions C03_pool_independent.
(* the k-th test is exactly 'rank >= k' *)
Theorem C03_level_test : forall g, wfb g = true -> (0 < nv g)%nat -> forall fuel D k b, length D = nv g ->
  all_winnable fuel g (map (fun E => dsub (nv g) D E) (placements (nv g) k)) = Done b -> (b = true <-> rank_ge (Vg g) (mult g) (nthZ D) k).
Proof. exact all_winnable_rank_ge. Qed.
Print Assumptions C03_level_test.
(* optimized mode, relative to Riemann-Roch *)
Theorem C03_rank_optimized_partial : forall g, wfb g = true -> (0 < nv g)%nat ->
  (forall D, length D = nv g -> winnable (Vg g) (mult g) (nthZ D) -> 2 * genus_g g - 2 < degD g D -> is_rank (Vg g) (mult g) (nthZ D) (degD g D - genus_g g)) ->
  (forall D r', length D = nv g -> winnable (Vg g) (mult g) (nthZ D) -> is_rank (Vg g) (mult g) (nthZ (dsub (nv g) (canonical_g g) D)) r' ->
     is_rank (Vg g) (mult g) (nthZ D) (r' + degD g D + 1 - genus_g g)) ->
  forall kfuel fuel D r, length D = nv g -> rank_opt kfuel fuel g D = Done r -> is_rank (Vg g) (mult g) (nthZ D) r.
Proof. exact rank_opt_spec_partial. Qed.
Print Assumptions C03_rank_optimized_partial.
(* the abstract Riemann-Roch core *)
Theorem C03_RR_core : forall V m, (forall v w, m v w = m w v) -> forall (gg : Z) (K : nat -> Z), RiemannRoch.deg V K = 2 * gg - 2 ->
  (forall X, ~ RiemannRoch.winnable V m X -> exists nu, N V m gg nu /\ RiemannRoch.winnable V m (fun v => nu v - X v)) ->
  (forall nu, N V m gg nu -> N V m gg (fun v => K v - nu v)) ->
  forall D k, unwinnable_at V m D k <-> unwinnable_at V m (fun v => K v - D v) (k - RiemannRoch.deg V D - 1 + gg).
Proof. exact RR_iff. Qed.
Print Assumptions C03_RR_core.
(* regression statement for the repaired defect d3: returning r(K-D) uncorrected is wrong *)
Definition K3x2 : graph := [[0;2;2];[2;0;2];[2;2;0]].
Theorem rank_opt_uncorrected_refuted : exists g D, wfb g = true /\ connected_b g = true /\
  rank_opt_uncorrected 10 200 g D = Done 0 /\ rank_plain 10 200 g D = Done 2 /\ rank_opt 10 200 g D = Done 2.
Proof. exists K3x2, [2;3;1]. repeat split; vm_compute; reflexivity. Qed.
Print Assumptions rank_opt_uncorrected_refuted.
(* bounded Riemann-Roch: for the doubled triangle and every divisor in a box the two modes agree and satisfy r(D) - r(K-D) = deg D + 1 - g *)
Definition box3 : list div := flat_map (fun a => flat_map (fun b => map (fun c => [a; b; c]) [-1;0;1;2;3]) [-1;0;1;2;3]) [-1;0;1;2;3].
Theorem RR_bounded_doubled_triangle : forallb (fun D =>
  match rank_plain 12 300 K3x2 D, rank_opt 12 300 K3x2 D, rank_plain 12 300 K3x2 (dsub 3 (canonical_g K3x2) D) with
  | Done r, Done r', Done rk => (r =? r') && (r - rk =? degD K3x2 D + 1 - genus_g K3x2) | _, _, _ => false end) box3 = true.
Proof. vm_compute. reflexivity. Qed.
Print Assumptions RR_bounded_doubled_triangle.
