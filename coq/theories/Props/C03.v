(* C03  Rank equals the Baker-Norine rank in both calculation modes.
   Plain mode: the k-loop computes the Baker-Norine rank (every fuel on which the model returns). Optimized mode: Riemann-Roch is PROVED
   (C03_riemann_roch, for every connected multigraph, from the burning certificate of C09 and the symmetry D(O) + D(rev O) = K), so the optimized
   rank equals the Baker-Norine rank and both modes agree, with no hypothesis left. The conditional statement is kept as well. *)
From Coq Require Import ZArith List Bool Permutation.
Import ListNotations.
From CF Require Import ZSum ListAux Defs Core RankLink RiemannRoch RRLink TermAll.
Open Scope Z_scope.

(* plain mode: -1 exactly when unwinnable, otherwise the largest k with D - E winnable for every effective E of degree k *)
Theorem C03_rank_plain : forall g, wfb g = true -> (0 < nv g)%nat -> forall kfuel fuel D r, length D = nv g ->
  rank_plain kfuel fuel g D = Done r -> is_rank (Vg g) (mult g) (nthZ D) r.
Proof. exact rank_plain_spec. Qed.
Print Assumptions C03_rank_plain.
(* that value is unique, so every correct way of computing it agrees *)
Theorem C03_rank_unique : forall g, wfb g = true -> (0 < nv g)%nat -> forall D r r', is_rank (Vg g) (mult g) D r -> is_rank (Vg g) (mult g) D r' -> r = r'.
Proof. intros g _. apply is_rank_unique. Qed.
Print Assumptions C03_rank_unique.
(* the verdict for one k does not depend on the order in which the sub-divisors are evaluated (worker pool vs sequential fallback, early exit) *)
Theorem C03_pool_independent : forall g, wfb g = true -> (0 < nv g)%nat -> forall w, exact g w -> forall fuel Ds Ds' b b', Permutation Ds Ds' ->
  (forall E, In E Ds -> length E = nv g) ->
  fold_left (wstep g w fuel) Ds (Done true) = Done b -> fold_left (wstep g w fuel) Ds' (Done true) = Done b' -> b = b'.
Proof. intros g Hwf Hn w Hw. exact (pool_independent g w Hw). Qed.
Print Assumptions C03_pool_independent.
(* the k-th test is exactly 'rank >= k' *)
Theorem C03_level_test : forall g, wfb g = true -> (0 < nv g)%nat -> forall fuel D k b, length D = nv g ->
  all_winnable fuel g (map (fun E => dsub (nv g) D E) (placements (nv g) k)) = Done b -> (b = true <-> rank_ge (Vg g) (mult g) (nthZ D) k).
Proof. exact all_winnable_rank_ge. Qed.
Print Assumptions C03_level_test.
(* optimized mode, relative to Riemann-Roch *)
Theorem C03_rank_optimized_partial : forall g, wfb g = true -> (0 < nv g)%nat ->
  (forall D, length D = nv g -> winnable (Vg g) (mult g) (nthZ D) -> 2 * genus_g g - 2 < degD g D -> is_rank (Vg g) (mult g) (nthZ D) (degD g D - genus_g g)) ->
  (forall D r', length D = nv g -> winnable (Vg g) (mult g) (nthZ D) -> is_rank (Vg g) (mult g) (nthZ (dsub (nv g) (canonical_g g) D)) r' ->
     is_rank (Vg g) (mult g) (nthZ D) (r' + degD g D + 1 - genus_g g)) ->
  forall kfuel fuel D r, length D = nv g -> rank_opt kfuel fuel g D = Done r -> is_rank (Vg g) (mult g) (nthZ D) r.
Proof. exact rank_opt_spec_partial. Qed.
Print Assumptions C03_rank_optimized_partial.
(* Riemann-Roch itself, for every connected multigraph: level k for D  <->  level k - deg D - 1 + g for K - D *)
Theorem C03_riemann_roch : forall g, wfb g = true -> connected_b g = true -> (0 < nv g)%nat -> forall D k,
  unwinnable_at (Vg g) (mult g) D k <-> unwinnable_at (Vg g) (mult g) (fun v => canonical (Vg g) (mult g) v - D v) (k - deg (Vg g) D - 1 + genus (Vg g) (mult g)).
Proof. exact riemann_roch_model. Qed.
Print Assumptions C03_riemann_roch.
(* in rank form: r(D) = r(K - D) + deg D + 1 - g, and r(D) = deg D - g whenever deg D > 2g - 2 *)
Theorem C03_riemann_roch_rank : forall g, wfb g = true -> connected_b g = true -> (0 < nv g)%nat -> forall D r', length D = nv g ->
  is_rank (Vg g) (mult g) (nthZ (dsub (nv g) (canonical_g g) D)) r' -> is_rank (Vg g) (mult g) (nthZ D) (r' + degD g D + 1 - genus_g g).
Proof. exact RR_for_rank. Qed.
Print Assumptions C03_riemann_roch_rank.
Theorem C03_rank_above_2g_minus_2 : forall g, wfb g = true -> connected_b g = true -> (0 < nv g)%nat -> forall D, length D = nv g ->
  winnable (Vg g) (mult g) (nthZ D) -> 2 * genus_g g - 2 < degD g D -> is_rank (Vg g) (mult g) (nthZ D) (degD g D - genus_g g).
Proof. exact RR_corollary_for_rank. Qed.
Print Assumptions C03_rank_above_2g_minus_2.
(* hence optimized mode computes the Baker-Norine rank too, and the two modes agree (uniqueness) *)
Theorem C03_rank_optimized : forall g, wfb g = true -> connected_b g = true -> (0 < nv g)%nat -> forall kfuel fuel D r, length D = nv g ->
  rank_opt kfuel fuel g D = Done r -> is_rank (Vg g) (mult g) (nthZ D) r.
Proof. exact rank_opt_spec. Qed.
Print Assumptions C03_rank_optimized.
Theorem C03_modes_agree : forall g, wfb g = true -> connected_b g = true -> (0 < nv g)%nat -> forall k1 f1 k2 f2 D r1 r2, length D = nv g ->
  rank_plain k1 f1 g D = Done r1 -> rank_opt k2 f2 g D = Done r2 -> r1 = r2.
Proof. intros g Hwf Hc Hn k1 f1 k2 f2 D r1 r2 HL H1 H2. apply (is_rank_unique g Hn (nthZ D)).
  - eapply rank_plain_spec; eauto.
  - eapply rank_opt_spec; eauto. Qed.
Print Assumptions C03_modes_agree.
(* both modes terminate on connected multigraphs *)
Theorem C03_terminates : forall g, wfb g = true -> connected_b g = true -> (0 < nv g)%nat -> forall D, length D = nv g ->
  (exists kfuel fuel r, rank_plain kfuel fuel g D = Done r) /\ (exists kfuel fuel r, rank_opt kfuel fuel g D = Done r).
Proof. intros g Hwf Hc Hn D HL. split; [now apply rank_plain_terminates|now apply rank_opt_terminates]. Qed.
Print Assumptions C03_terminates.
(* regression statement for the repaired defect d3: returning r(K-D) uncorrected is wrong *)
Definition K3x2 : graph := [[0;2;2];[2;0;2];[2;2;0]].
Theorem rank_opt_uncorrected_refuted : exists g D, wfb g = true /\ connected_b g = true /\
  rank_opt_uncorrected 10 200 g D = Done 0 /\ rank_plain 10 200 g D = Done 2 /\ rank_opt 10 200 g D = Done 2.
Proof. exists K3x2, [2;3;1]. repeat split; vm_compute; reflexivity. Qed.
Print Assumptions rank_opt_uncorrected_refuted.
(* bounded Riemann-Roch: for the doubled triangle and every divisor in a box the two modes agree and satisfy r(D) - r(K-D) = deg D + 1 - g *)
Definition box3 : list div := flat_map (fun a => flat_map (fun b => map (fun c => [a; b; c]) [-1;0;1;2;3]) [-1;0;1;2;3]) [-1;0;1;2;3].
Theorem RR_bounded_doubled_triangle : forallb (fun D =>
  match rank_plain 12 300 K3x2 D, rank_opt 12 300 K3x2 D, rank_plain 12 300 K3x2 (dsub 3 (canonical_g K3x2) D) with
  | Done r, Done r', Done rk => (r =? r') && (r - rk =? degD K3x2 D + 1 - genus_g K3x2) | _, _, _ => false end) box3 = true.
Proof. vm_compute. reflexivity. Qed.
Print Assumptions RR_bounded_doubled_triangle.
