(* C02  q-reduction returns the unique q-reduced representative of the class. *)
From Coq Require Import ZArith List Bool.
Import ListNotations.
From CF Require Import ListAux Defs Reduced Core Cert EwdLink DharLink QredLink.
Open Scope Z_scope.

(* the output is equivalent to the input, debt-free off q, admits no legal set-firing away from q; q has minimum degree (ties: least name) *)
Theorem C02_qred : forall g, wfb g = true -> forall fuel D q R, length D = nv g -> (0 < nv g)%nat -> q_reduction fuel g D = Done (q, R) ->
  lequiv (Vg g) (mult g) (nthZ D) (nthZ R) /\ reduced (Vg g) (mult g) q (nthZ R) /\ is_min_vertex D q /\ length R = nv g.
Proof. exact q_reduction_spec. Qed.
Print Assumptions C02_qred.

(* uniqueness: two q-reduced divisors in one class are equal -- for every multigraph (duplicate-free V, m >= 0) *)
Theorem C02_unique : forall V m, (forall v w, 0 <= m v w) -> forall q D E, In q V ->
  reduced V m q D -> reduced V m q E -> lequiv V m D E -> forall v, In v V -> D v = E v.
Proof. exact reduced_unique. Qed.
Print Assumptions C02_unique.

(* hence linearly equivalent inputs reduced w.r.t. the same q give identical outputs and verdicts *)
Theorem C02_class_function : forall g, wfb g = true -> forall f1 f2 q D E b1 R1 B1 b2 R2 B2, In q (Vg g) -> length D = nv g -> length E = nv g ->
  lequiv (Vg g) (mult g) (nthZ D) (nthZ E) -> ewd_q f1 g q D = Done (b1, R1, B1) -> ewd_q f2 g q E = Done (b2, R2, B2) -> R1 = R2 /\ b1 = b2.
Proof. exact reduction_class_function. Qed.
Print Assumptions C02_class_function.

(* the verdict equals "the output has no debt at q", and is exact *)
Theorem C02_verdict_iff_no_debt_at_q : forall g, wfb g = true -> forall fuel q D b R B, In q (Vg g) -> length D = nv g ->
  ewd_q fuel g q D = Done (b, R, B) -> b = (0 <=? nthZ R q) /\ (b = true <-> winnable (Vg g) (mult g) (nthZ D)).
Proof. intros g Hwf fuel q D b R B Hq HL H. destruct (ewd_q_sound g Hwf fuel q D b R B Hq HL H) as [_ [_ [_ [H1 H2]]]]. split; assumption. Qed.
Print Assumptions C02_verdict_iff_no_debt_at_q.

(* specification of is_q_reduced: true exactly when D already is that representative; reduced_b decides it *)
Theorem C02_is_reduced_spec : forall g, wfb g = true -> forall q D, In q (Vg g) -> (reduced_b g q D = true <-> reduced (Vg g) (mult g) q (nthZ D)).
Proof. exact reduced_b_spec. Qed.
Print Assumptions C02_is_reduced_spec.
Theorem C02_is_reduced_iff_fixed : forall g, wfb g = true -> forall fuel q D b R B, In q (Vg g) -> length D = nv g ->
  ewd_q fuel g q D = Done (b, R, B) -> (reduced_b g q D = true <-> R = D).
Proof. exact is_q_reduced_spec. Qed.
Print Assumptions C02_is_reduced_iff_fixed.

(* recorded finding d6: the implementation's is_q_reduced compares the in-place reduced argument with itself, i.e. answers True always *)
Definition is_q_reduced_as_implemented (g : graph) (D : div) : bool := true.
Definition P3 : graph := [[0;1;0];[1;0;1];[0;1;0]].
Theorem is_q_reduced_refuted : exists g D, wfb g = true /\ connected_b g = true /\
  is_q_reduced_as_implemented g D = true /\ reduced_b g (argmin D) D = false.
Proof. exists P3, [3;0;0]. repeat split; vm_compute; reflexivity. Qed.
Print Assumptions is_q_reduced_refuted.

Example C02_nonvacuous : q_reduction 100 P3 [3;0;-1] = Done (2%nat, [0;0;2]) /\ reduced_b P3 2%nat [0;0;2] = true.
Proof. split; vm_compute; reflexivity. Qed.
