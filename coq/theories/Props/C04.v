(* C04  Gonality is the least degree of a rank>=1 divisor; strategies are genuine.
   All statements are relative to `terminates g` (the reduction of every divisor on g returns for some fuel), which is what makes the
   optimized winnability oracle used by the gonality code exact (C01); it is discharged by Link/Termination.v when present. *)
From Coq Require Import ZArith List Bool.
Import ListNotations.
From CF Require Import ZSum ListAux Defs Core RankLink GonLink Termination TermAll.
Open Scope Z_scope.

(* a single game: exactly the winnability of the placement after the opponent removes one chip at v *)
Theorem C04_game : forall g, wfb g = true -> (0 < nv g)%nat -> terminates g -> forall fuel D v b, length D = nv g ->
  play_game fuel g D v = Done b -> (b = true <-> winnable (Vg g) (mult g) (nthZ (sub1 (nv g) D v))).
Proof. exact play_game_spec. Qed.
Print Assumptions C04_game.
(* strategy test: works iff rank >= 1 (D - v winnable for every v); the losing vertices are exactly the vertices that defeat it *)
Theorem C04_strategy_test : forall g, wfb g = true -> (0 < nv g)%nat -> terminates g -> forall fuel D b l, length D = nv g ->
  test_strategy fuel g D = Done (b, l) ->
  (b = true <-> rank_ge (Vg g) (mult g) (nthZ D) 1) /\ (forall v, In v l <-> In v (Vg g) /\ ~ winnable (Vg g) (mult g) (nthZ (sub1 (nv g) D v))).
Proof. exact test_strategy_spec. Qed.
Print Assumptions C04_strategy_test.
Theorem C04_rank_ge_one : forall g, (0 < nv g)%nat -> forall D,
  rank_ge (Vg g) (mult g) (nthZ D) 1 <-> forall v, In v (Vg g) -> winnable (Vg g) (mult g) (nthZ (sub1 (nv g) D v)).
Proof. exact rank_ge_one. Qed.
Print Assumptions C04_rank_ge_one.
(* gonality: the least k in 1..max with an effective divisor of degree k and rank >= 1 (is_gonality), the same with and without strategy
   collection; -1 exactly when no such k <= max exists; reported strategies are non-empty, at most 5 (1), effective, have exactly k chips and rank >= 1 *)
Theorem C04_gonality : forall g, wfb g = true -> (0 < nv g)%nat -> terminates g -> forall fuel maxg fs k l,
  compute_gonality fuel g maxg fs = Done (k, l) ->
  (k = -1 /\ l = [] /\ forall j, (1 <= j <= maxg)%nat -> ~ exists D, effective (Vg g) D /\ deg (Vg g) D = Z.of_nat j /\ rank_ge (Vg g) (mult g) D 1) \/
  (exists j, k = Z.of_nat j /\ (1 <= j <= maxg)%nat /\ is_gonality (Vg g) (mult g) j /\ l <> [] /\ (length l <= if fs then 5 else 1)%nat /\
     forall P, In P l -> length P = nv g /\ (forall x, In x P -> 0 <= x) /\ lsum P = Z.of_nat j /\ rank_ge (Vg g) (mult g) (nthZ P) 1).
Proof. exact compute_gonality_spec. Qed.
Print Assumptions C04_gonality.
(* per-sink search: least number of chips off q surviving a chip removed at q, with ALL placements of that size; or (max+1, []) *)
Theorem C04_per_sink : forall g, wfb g = true -> (0 < nv g)%nat -> terminates g -> forall fuel q maxg k S, per_sink fuel g q maxg = Done (k, S) ->
  let good j P := In P (off_q (nv g) q j) /\ winnable (Vg g) (mult g) (nthZ (sub1 (nv g) P q)) in
  ((1 <= k <= maxg)%nat /\ S <> [] /\ (forall P, In P S <-> good k P) /\ (forall j P, (1 <= j < k)%nat -> ~ good j P)) \/
  (k = Datatypes.S maxg /\ S = [] /\ forall j P, (1 <= j <= maxg)%nat -> ~ good j P).
Proof. exact per_sink_spec. Qed.
Print Assumptions C04_per_sink.

(* the hypothesis `terminates g` holds on every connected multigraph (Link/Termination.v), so the statements above are unconditional there *)
Theorem C04_terminates_on_connected : forall g, wfb g = true -> connected_b g = true -> (0 < nv g)%nat -> terminates g.
Proof. exact connected_terminates. Qed.
Print Assumptions C04_terminates_on_connected.
Theorem C04_gonality_connected : forall g, wfb g = true -> connected_b g = true -> (0 < nv g)%nat -> forall fuel maxg fs k l,
  compute_gonality fuel g maxg fs = Done (k, l) ->
  (k = -1 /\ l = [] /\ forall j, (1 <= j <= maxg)%nat -> ~ exists D, effective (Vg g) D /\ deg (Vg g) D = Z.of_nat j /\ rank_ge (Vg g) (mult g) D 1) \/
  (exists j, k = Z.of_nat j /\ (1 <= j <= maxg)%nat /\ is_gonality (Vg g) (mult g) j /\ l <> [] /\ (length l <= if fs then 5 else 1)%nat /\
     forall P, In P l -> length P = nv g /\ (forall x, In x P -> 0 <= x) /\ lsum P = Z.of_nat j /\ rank_ge (Vg g) (mult g) (nthZ P) 1).
Proof. intros g Hwf Hc Hn. apply compute_gonality_spec; auto. now apply connected_terminates. Qed.
Print Assumptions C04_gonality_connected.

Theorem C04_gonality_terminates : forall g, wfb g = true -> connected_b g = true -> (0 < nv g)%nat -> forall maxg fs,
  exists fuel x, compute_gonality fuel g maxg fs = Done x.
Proof. exact compute_gonality_terminates. Qed.
Print Assumptions C04_gonality_terminates.

Example C04_nonvacuous : let K4 := [[0;1;1;1];[1;0;1;1];[1;1;0;1];[1;1;1;0]] in
  compute_gonality 200 K4 4 false = Done (3, [[3;0;0;0]]) /\ compute_gonality 200 K4 2 true = Done (-1, []) /\
  test_strategy 200 K4 [1;1;0;0] = Done (false, [2;3]%nat) /\ per_sink 200 [[0;1;0];[1;0;1];[0;1;0]] 0%nat 2 = Done (1%nat, [[0;1;0];[0;0;1]]).
Proof. repeat split; vm_compute; reflexivity. Qed.
