(* C17  Answers depend only on the mathematical input, not names, order or hash seed.
   In the model the only order-dependent ingredients are the processing order of debt concentration and the visiting order of the greedy
   solver; every other function takes (matrix, chip vector) and nothing else. Renaming is a bijection pi of the vertices with left inverse rho. *)
From Coq Require Import ZArith List Bool.
Import ListNotations.
From CF Require Import ZSum ListAux Defs Rename Core EwdLink QredLink IndepLink.
Open Scope Z_scope.

(* the reduced divisor (hence the verdict, and the burning order of the final run) does not depend on the order in which debt is concentrated *)
Theorem C17_reduction_order_independent : forall g, wfb g = true -> forall f1 f2 q o1 o2 D R1 B1 R2 B2, In q (Vg g) ->
  (forall v, In v o1 -> In v (Vg g)) -> (forall v, In v o2 -> In v (Vg g)) -> length D = nv g ->
  reduce_loop f1 g q o1 D = Done (R1, B1) -> reduce_loop f2 g q o2 D = Done (R2, B2) -> R1 = R2 /\ B1 = B2.
Proof. exact reduce_loop_order_independent. Qed.
Print Assumptions C17_reduction_order_independent.
(* the sink is determined by the chip vector alone: least-named vertex of minimum degree *)
Theorem C17_sink_determined : forall D q q', is_min_vertex D q -> is_min_vertex D q' -> q = q'.
Proof. exact is_min_vertex_unique. Qed.
Print Assumptions C17_sink_determined.
(* renaming: winnability, linear equivalence, rank and gonality are carried along by any relabelling of the vertices *)
Theorem C17_winnable_rename : forall V m m' pi rho, (forall v, In v V -> rho (pi v) = v) -> (forall v w, In v V -> In w V -> m' (pi v) (pi w) = m v w) ->
  forall X', winnable (map pi V) m' X' <-> winnable V m (fun v => X' (pi v)).
Proof. exact winnable_rename. Qed.
Print Assumptions C17_winnable_rename.
Theorem C17_lequiv_rename : forall V m m' pi rho, (forall v, In v V -> rho (pi v) = v) -> (forall v w, In v V -> In w V -> m' (pi v) (pi w) = m v w) ->
  forall X' Y', lequiv (map pi V) m' X' Y' <-> lequiv V m (fun v => X' (pi v)) (fun v => Y' (pi v)).
Proof. exact lequiv_rename. Qed.
Print Assumptions C17_lequiv_rename.
Theorem C17_rank_rename : forall V m m' pi rho, (forall v, In v V -> rho (pi v) = v) -> (forall v w, In v V -> In w V -> m' (pi v) (pi w) = m v w) ->
  forall X' r, is_rank (map pi V) m' X' r <-> is_rank V m (fun v => X' (pi v)) r.
Proof. exact is_rank_rename. Qed.
Print Assumptions C17_rank_rename.
Theorem C17_gonality_rename : forall V m m' pi rho, (forall v, In v V -> rho (pi v) = v) -> (forall v w, In v V -> In w V -> m' (pi v) (pi w) = m v w) ->
  forall k, is_gonality (map pi V) m' k <-> is_gonality V m k.
Proof. exact is_gonality_rename. Qed.
Print Assumptions C17_gonality_rename.
(* regression statement for the repaired defect d2: 'first minimum in iteration order' gives different sinks for different orders *)
Definition first_min_in_order (D : div) (order : list nat) : nat :=
  fold_left (fun best v => if nthZ D v <? nthZ D best then v else best) (tl order) (hd 0%nat order).
Theorem first_min_in_order_refuted : exists D o1 o2, first_min_in_order D o1 <> first_min_in_order D o2 /\
  exists g, wfb g = true /\ q_reduction 100 g D = Done (0%nat, [3;0;0]) /\ ewd_q 100 g 1%nat D = Done (true, [0;3;0], [1;0;2]%nat).
Proof. exists [-1;-1;5], [0;1;2]%nat, [1;0;2]%nat. split; [vm_compute; discriminate|]. exists [[0;1;1];[1;0;1];[1;1;0]]. repeat split; vm_compute; reflexivity. Qed.
Print Assumptions first_min_in_order_refuted.
