(* C08  Debt concentration clears V-q; the burn returns the maximal legal firing set. *)
From Coq Require Import ZArith List Bool.
Import ListNotations.
From CF Require Import ListAux Defs Burn Core Cert DharLink CertLink QredLink PyDict ImpRep TranslatedImpDharAlgorithm ImpLinkDhar.
Open Scope Z_scope.

(* concentration (any processing order, any fuel on which it returns): debt-free off q, obtained by borrowing moves off q only
   (script s <= 0 with s q = 0), hence same class and same degree *)
Theorem C08_concentrate : forall g, wfb g = true -> forall fuel q ord D D', (forall v, In v ord -> In v (Vg g)) -> length D = nv g ->
  concentrate fuel g q ord D = Done D' ->
  (exists s : script, (forall v, s v <= 0) /\ s q = 0 /\ (forall v, In v (Vg g) -> nthZ D' v = nthZ D v - lap (Vg g) (mult g) s v)) /\
  length D' = nv g /\ (forall v, In v (Vg g) -> v <> q -> 0 <= nthZ D' v).
Proof. exact concentrate_post. Qed.
Print Assumptions C08_concentrate.

(* the checker applied to the implementation's output is sound *)
Theorem C08_checker_sound : forall g, wfb g = true -> forall fuel q D D', In q (Vg g) -> length D = nv g -> conc_ok fuel g q D D' = Done true ->
  (forall v, In v (Vg g) -> v <> q -> 0 <= nthZ D' v) /\ lequiv (Vg g) (mult g) (nthZ D) (nthZ D') /\ degD g D' = degD g D.
Proof. exact conc_ok_sound. Qed.
Print Assumptions C08_checker_sound.

(* Dhar: the unburnt set U is legal, contains every legal set avoiding q (so it is their union), avoids q, and firing it leaves its members debt-free *)
Theorem C08_burn : forall g, wfb g = true -> forall q D, In q (Vg g) ->
  let U := unburnt_list g q D in
  legal (Vg g) (mult g) (nthZ D) (fun v => mem v U) /\
  (forall S, S q = false -> legal (Vg g) (mult g) (nthZ D) S -> forall v, In v (Vg g) -> S v = true -> In v U) /\
  ~ In q U /\ (forall v, In v U -> In v (Vg g)) /\ (forall v, In v U -> 0 <= nthZ (fire_set g D U) v).
Proof. exact burn_facts. Qed.
Print Assumptions C08_burn.

(* empty exactly when the configuration is superstable (non-negative off q and no non-empty legal set) *)
Theorem C08_empty_iff_superstable : forall g, wfb g = true -> forall q D, In q (Vg g) -> (forall v, In v (Vg g) -> v <> q -> 0 <= nthZ D v) ->
  (unburnt_list g q D = [] <-> superstable (Vg g) (mult g) q (nthZ D)).
Proof. exact burn_reduced. Qed.
Print Assumptions C08_empty_iff_superstable.

Example C08_nonvacuous : let g := [[0;1;1];[1;0;1];[1;1;0]] in
  concentrate 100 g 0%nat (default_ord g 0%nat) [0;-3;1] = Done [-3;0;1] /\ unburnt_list g 0%nat [0;2;2] = [1;2]%nat /\ unburnt_list g 0%nat [0;1;0] = [].
Proof. repeat split; vm_compute; reflexivity. Qed.

(* DharAlgorithm.outdegree_S as translated from /repo's CURRENT source (a generator sum over the neighbours that lie in the set): for dictionaries representing g it is
   exactly edges_to - the number of edges from the vertex into the burnt set which the burning test (burn_step, C08_burn) compares the chips with; 0 for an unknown name *)
Theorem C08_source_outdegree_S : forall g gg v B, wfb g = true -> rep_graph gg g ->
  DharAlgorithm_outdegree_S gg v B = PyOk (edges_to (Vg g) (mult g) v B).
Proof. exact outdegree_S_refines. Qed.
Print Assumptions C08_source_outdegree_S.
Example C08_source_outdegree_nonvacuous : let g := [[0;2;1];[2;0;1];[1;1;0]] in
  DharAlgorithm_outdegree_S (dict_of_graph g) 0%nat [1;2]%nat = PyOk 3 /\ DharAlgorithm_outdegree_S (dict_of_graph g) 2%nat [1]%nat = PyOk 1 /\
  DharAlgorithm_outdegree_S (dict_of_graph g) 5%nat [1]%nat = PyOk 0.
Proof. vm_compute. repeat split. Qed.
