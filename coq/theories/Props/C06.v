(* C06  Laplacian is the graph Laplacian; applying a script is exact D - L*s. *)
From Coq Require Import ZArith List Bool Permutation.
Import ListNotations.
From CF Require Import ZSum ListAux Defs LinEquiv Core Machines GraphLink MovesLink PyDict ImpRep TranslatedImpCFiringScript ImpLinkScript TranslatedImpCFLaplacian ImpLinkLaplacian.
Open Scope Z_scope.

Theorem C06_entries : forall g v w, lap_entry g v w = if Nat.eqb v w then valg g v else - mult g v w.
Proof. reflexivity. Qed.
Print Assumptions C06_entries.
Theorem C06_symmetric : forall g, wfb g = true -> forall v w, lap_entry g v w = lap_entry g w v.
Proof. exact lap_symmetric. Qed.
Print Assumptions C06_symmetric.
Theorem C06_row_sum_zero : forall g, wfb g = true -> forall v, In v (Vg g) -> zsum (lap_entry g v) (Vg g) = 0.
Proof. exact lap_row_sum_zero. Qed.
Print Assumptions C06_row_sum_zero.
(* the reduced matrix is the same table with row and column q left out *)
Theorem C06_reduced_is_minor : forall g q, lap_reduced g q =
  map (fun v => map (lap_entry g v) (filter (fun w => negb (Nat.eqb w q)) (Vg g))) (filter (fun v => negb (Nat.eqb v q)) (Vg g)).
Proof. reflexivity. Qed.
Print Assumptions C06_reduced_is_minor.
(* apply = D - L s exactly, in unbounded integers *)
Theorem C06_apply : forall g, wfb g = true -> forall D s v, In v (Vg g) -> nthZ (lap_apply g D s) v = nthZ D v - lap (Vg g) (mult g) (nthZ s) v.
Proof. exact lap_apply_spec. Qed.
Print Assumptions C06_apply.
(* the same divisor is obtained by performing the scripted lends and borrows one at a time, in any order of the vertices *)
Theorem C06_apply_eq_scripted_moves : forall g, wfb g = true -> forall D s order, Permutation order (Vg g) -> forall w, In w (Vg g) ->
  nthZ (scripted_moves g D s order) w = nthZ (lap_apply g D s) w.
Proof. exact apply_eq_scripted_moves. Qed.
Print Assumptions C06_apply_eq_scripted_moves.
(* additive in the script *)
Theorem C06_additive : forall g, wfb g = true -> forall D s t v, In v (Vg g) ->
  nthZ (lap_apply g D (tab (nv g) (fun x => nthZ s x + nthZ t x))) v = nthZ (lap_apply g (lap_apply g D s) t) v.
Proof. exact lap_apply_additive. Qed.
Print Assumptions C06_additive.
(* scripts built incrementally by set / update requests denote their net vector: update adds, set overwrites, refused requests change nothing *)
Theorem C06_script_ops : forall n s v k, (v < n)%nat -> length s = n ->
  (exists s', sstep n s (SSet v k) = Ok s' /\ nthZ s' v = k /\ forall w, w <> v -> nthZ s' w = nthZ s w) /\
  (exists s', sstep n s (SUpdate v k) = Ok s' /\ nthZ s' v = nthZ s v + k /\ forall w, w <> v -> nthZ s' w = nthZ s w).
Proof. intros n s v k Hv HL. assert (E : Nat.ltb v n = true) by now apply Nat.ltb_lt. split; eexists; cbn [sstep]; rewrite E; (split; [reflexivity|]); split.
  1,3: rewrite MachinesLink.nthZ_upd, Nat.eqb_refl; cbn [andb]; rewrite HL, E; reflexivity.
  all: intros w Hw; rewrite MachinesLink.nthZ_upd; apply Nat.eqb_neq in Hw; rewrite Hw; reflexivity. Qed.
Print Assumptions C06_script_ops.

(* ---- tie to the source text: CFiringScript.get_firings / set_firings / update_firings as translated from /repo's CURRENT source by
   tools/translate_imp.py (TranslatedImpCFiringScript.v; the script is a sparse dictionary, absent = 0) refine the script machine above:
   rep_vset n vs: the graph's vertex set is {0..n-1}; rep_script n sd s: the dictionary sd reads as the dense script s ---- *)
Theorem C06_source_script_ops : forall n vs sd s, rep_vset n vs -> rep_script n sd s ->
  (forall v, CFiringScript_get_firings vs sd v = if Nat.ltb v n then PyOk (nthZ s v) else PyExn tt) /\
  (forall v k, match CFiringScript_set_firings vs sd v k with
     | PyExn st => sstep n s (SSet v k) = Err /\ st = sd | PyOk sd' => exists s', sstep n s (SSet v k) = Ok s' /\ rep_script n sd' s' end) /\
  (forall v k, match CFiringScript_update_firings vs sd v k with
     | PyExn st => sstep n s (SUpdate v k) = Err /\ st = sd | PyOk sd' => exists s', sstep n s (SUpdate v k) = Ok s' /\ rep_script n sd' s' end).
Proof. intros n vs sd s Hv Hs. split; [intros v; apply get_firings_refines; assumption|]. split; [intros v k; apply set_firings_refines; assumption|intros v k; apply update_firings_refines; assumption]. Qed.
Print Assumptions C06_source_script_ops.
Theorem C06_source_states_representable : forall s, rep_vset (length s) (seq 0 (length s)) /\ rep_script (length s) (dict_of_div s) s.
Proof. intros s. split; [apply rep_vset_of|apply rep_script_of]. Qed.
Print Assumptions C06_source_states_representable.
Example C06_source_nonvacuous :
  CFiringScript_update_firings [0;1;2]%nat [(1%nat, 5)] 1%nat (2^70) = PyOk [(1%nat, 5 + 2^70)] /\
  CFiringScript_update_firings [0;1;2]%nat [(1%nat, 5)] 2%nat (-3) = PyOk [(1%nat, 5); (2%nat, -3)] /\ CFiringScript_set_firings [0;1;2]%nat [] 3%nat 1 = PyExn [].
Proof. repeat split; vm_compute; reflexivity. Qed.

Example C06_nonvacuous_beyond_64_bits : let g := [[0;1;1;1];[1;0;1;1];[1;1;0;1];[1;1;1;0]] in
  lap_apply g [0;0;0;0] [2^62;0;0;0] = [-3 * 2^62; 2^62; 2^62; 2^62] /\ 2^63 < 3 * 2^62.
Proof. split; vm_compute; reflexivity. Qed.

(* the constructor CFiringScript(graph, script) as translated from /repo's CURRENT source: without a dictionary the zero script; with one it raises exactly when a key
   is not a vertex, and otherwise the stored (sparse) dictionary represents "the given firings, 0 elsewhere" *)
Theorem C06_source_constructor : forall n vs gg sc, rep_vset n vs -> (forall d, sc = Some d -> NoDup (d_keys d)) ->
  match sc with
  | None => CFiringScript___init__ vs gg sc = PyOk [] /\ rep_script n [] (tab n (fun _ => 0))
  | Some d => match CFiringScript___init__ vs gg sc with
              | PyOk sd => forallb (fun kv => Nat.ltb (fst kv) n) d = true /\ rep_script n sd (tab n (fun v => d_get v 0 d))
              | PyExn _ => forallb (fun kv => Nat.ltb (fst kv) n) d = false end end.
Proof. exact script_ctor_refines. Qed.
Print Assumptions C06_source_constructor.
Example C06_source_constructor_nonvacuous :
  CFiringScript___init__ [0;1;2]%nat [] (Some [(2%nat, 5); (0%nat, -1)]) = PyOk [(2%nat, 5); (0%nat, -1)] /\
  CFiringScript___init__ [0;1;2]%nat [] (Some [(2%nat, 5); (3%nat, -1)]) = PyExn [(2%nat, 5)] /\ CFiringScript___init__ [0;1;2]%nat [] None = PyOk [].
Proof. vm_compute. repeat split. Qed.

(* the property `script` (what apply(), to_dict() and every caller read), translated from the CURRENT source: a NEW dictionary with exactly one entry per vertex holding the
   script's value there - the dense form of the sparse dictionary, for every iteration order of the vertex set *)
Theorem C06_source_script_property : forall n vs sd s so, rep_vset n vs -> NoDup vs -> rep_script n sd s -> (forall l, Permutation.Permutation (so l) l) ->
  exists dd, CFiringScript_script vs sd so = PyOk dd /\ rep_div n dd s.
Proof. exact script_property_refines. Qed.
Print Assumptions C06_source_script_property.
(* the Laplacian itself, as built by CFLaplacian._construct_matrix translated from /repo's CURRENT source: for dictionaries representing g (and its valences) the result has,
   for every vertex v, a row whose entry at w - absent entries being 0, the rows are defaultdict(int) - is lap_entry g v w of C06_entries, for every order in which the
   vertex set is iterated; get_matrix_entry reads these entries back and refuses names that are not vertices *)
Theorem C06_source_laplacian_matrix : forall g gg vs vtv V so, wfb g = true -> rep_graph gg g -> rep_vset (nv g) vs -> rep_div (nv g) vtv V ->
  (forall v, (v < nv g)%nat -> nthZ V v = valg g v) -> (forall l, Permutation.Permutation (so l) l) ->
  exists LL, CFLaplacian__construct_matrix vs vtv gg so = PyOk LL /\ rep_lap LL g /\
    forall v w, CFLaplacian_get_matrix_entry vs LL v w = if Nat.ltb v (nv g) && Nat.ltb w (nv g) then PyOk (lap_entry g v w) else PyExn tt.
Proof. intros g gg vs vtv V so Hwf Hg Hvs HV Hval Hso. destruct (construct_matrix_refines g Hwf gg Hg vs Hvs vtv V HV Hval so Hso) as (LL & E & R).
  exists LL. split; [exact E|]. split; [exact R|]. intros v w. apply (get_matrix_entry_refines g vs Hvs LL v w R). Qed.
Print Assumptions C06_source_laplacian_matrix.
Example C06_source_laplacian_nonvacuous : let g := [[0;2;1];[2;0;1];[1;1;0]] in
  match CFLaplacian__construct_matrix [0;1;2]%nat (dict_of_div [3;3;2]) (dict_of_graph g) (fun l => rev l) with
  | PyOk LL => CFLaplacian_get_matrix_entry [0;1;2]%nat LL 0%nat 1%nat = PyOk (-2) /\ CFLaplacian_get_matrix_entry [0;1;2]%nat LL 2%nat 2%nat = PyOk 2 /\
               CFLaplacian_get_matrix_entry [0;1;2]%nat LL 0%nat 3%nat = PyExn tt
  | PyExn _ => False end.
Proof. vm_compute. repeat split. Qed.
(* the reduced Laplacian get_reduced_matrix(q), translated from the CURRENT source (the read laplacian[v][w] is 0 for an absent entry because - and only while - the
   constructor's rows are defaultdict(int) in the current source): a row for every vertex but q, a column for every vertex but q, each entry lap_entry g v w; nothing for q,
   nothing for a name that is not a vertex; never refused; for every order in which the vertex set is iterated *)
Theorem C06_source_reduced_matrix : forall g vs so LL q, rep_vset (nv g) vs -> (forall l, Permutation.Permutation (so l) l) -> rep_lap LL g ->
  exists RR, CFLaplacian_get_reduced_matrix LL vs so q = PyOk RR /\
  forall u, if Nat.ltb u (nv g) && negb (Nat.eqb u q)
            then exists row, d_find u RR = Some row /\ forall w, d_find w row = if Nat.ltb w (nv g) && negb (Nat.eqb w q) then Some (lap_entry g u w) else None
            else d_find u RR = None.
Proof. intros g vs so LL q Hvs Hso HL. eapply get_reduced_matrix_refines; eassumption. Qed.
Print Assumptions C06_source_reduced_matrix.
Example C06_source_reduced_nonvacuous : let g := [[0;2;1];[2;0;1];[1;1;0]] in
  match CFLaplacian__construct_matrix [0;1;2]%nat (dict_of_div [3;3;2]) (dict_of_graph g) (fun l => rev l) with
  | PyOk LL => match CFLaplacian_get_reduced_matrix LL [0;1;2]%nat (fun l => rev l) 1%nat with
               | PyOk RR => d_find 1%nat RR = None /\ option_map (d_find 2%nat) (d_find 0%nat RR) = Some (Some (-1)) /\ option_map (d_find 1%nat) (d_find 0%nat RR) = Some None /\
                            option_map (d_find 2%nat) (d_find 2%nat RR) = Some (Some 2)
               | PyExn _ => False end
  | PyExn _ => False end.
Proof. vm_compute. repeat split. Qed.
