(* C10  Legal set-firings, superstables and parking functions match their definitions.
   General theorems: legality, superstability (the enumeration of all subsets is complete and agrees with Dhar's burn), the partial order,
   the parking-function generator; for EVERY n the superstables of K_(n+1) are exactly the parking functions of length n shifted down by one, and the
   sorted form of the parking predicate (as implemented) is the counting form (Link/ParkingLink.v); the generator returns (n+1)^(n-1) distinct
   sequences for every n (Link/ParkingCount.v). The matrix-tree theorem is proved for EVERY connected multigraph and every sink
   (Link/MatrixTree.v: the superstables are a transversal of Z^k modulo the rows of the reduced Laplacian; the index of a row lattice is |det|,
   Theory/LatticeIndex.v over Theory/Det.v; the determinant of a reduced Laplacian is not negative, Theory/DetSign.v); the statements ending in
   _bounded are additional kernel computations over complete finite domains. *)
From Coq Require Import ZArith List Bool.
Import ListNotations.
From CF Require Import ZSum ListAux Defs Core Machines Config ConfigLink BoundsLink ParkingLink ParkingCount PyLib Translated TranslatedLink Det LatticeIndex MatrixTree PyDict ImpRep ImpLinkScript TranslatedImpCFConfig ImpLinkConfig TranslatedImpCFConfigMoves ImpLinkConfigMoves ImpLinkConfigOrder ImpLinkConfigLegal ImpLinkConfigSuper.
Open Scope Z_scope.

Theorem C10_legal : forall g, wfb g = true -> forall D S, (forall v, In v S -> In v (Vg g)) ->
  (legal_b g D S = true <-> S <> [] /\ forall v, In v S -> outdeg (Vg g) (mult g) (fun w => mem w S) v <= nthZ D v).
Proof. intros g _. apply legal_b_spec. Qed.
Print Assumptions C10_legal.
Theorem C10_legal_refusals : forall g q D S, is_legal_set_firing g q D S =
  match S with [] => Ok false | _ => if existsb (fun v => negb (inb g v) || Nat.eqb v q) S then Err else Ok (legal_b g D S) end.
Proof. exact is_legal_set_firing_spec. Qed.
Print Assumptions C10_legal_refusals.
Theorem C10_superstable : forall g, wfb g = true -> forall q D, In q (Vg g) ->
  (superstable_enum g q D = true <-> superstable (Vg g) (mult g) q (nthZ D)).
Proof. intros g Hwf. apply superstable_enum_spec; auto. Qed.
Print Assumptions C10_superstable.
Theorem C10_superstable_eq_burn : forall g, wfb g = true -> forall q D, In q (Vg g) -> superstable_enum g q D = reduced_b g q D.
Proof. exact superstable_enum_eq_burn. Qed.
Print Assumptions C10_superstable_eq_burn.
Theorem C10_order : forall g q D E,
  (cfg_le g q D E = true <-> forall v, In v (Vg g) -> v <> q -> nthZ D v <= nthZ E v) /\
  (cfg_eq g q D E = true <-> forall v, In v (Vg g) -> v <> q -> nthZ D v = nthZ E v) /\
  (cfg_lt g q D E = true <-> (forall v, In v (Vg g) -> v <> q -> nthZ D v <= nthZ E v) /\ exists v, In v (Vg g) /\ v <> q /\ nthZ D v < nthZ E v).
Proof. exact cfg_order_spec. Qed.
Print Assumptions C10_order.
Theorem C10_generate_parking : forall n a, (0 < n)%nat ->
  (In a (generate_parking n) <-> length a = n /\ (forall x, In x a -> 1 <= x <= Z.of_nat n) /\ is_parking_n a n = true).
Proof. exact generate_parking_spec. Qed.
Print Assumptions C10_generate_parking.

(* ---- K_(n+1) and parking functions, every n ---- *)
Definition complete_graph (n : nat) : graph := tab n (fun v => tab n (fun w => if Nat.eqb v w then 0 else 1)).
(* n = k + 1 >= 1 non-sink vertices, sink 0, c ANY list of n integers: superstable (by enumeration of all subsets, as implemented, and by the burn)
   iff c shifted up by one is a parking function *)
Theorem C10_superstables_of_Kn_are_parking_functions : forall k c, length c = S k ->
  superstable_enum (complete_graph (S (S k))) 0%nat (0 :: c) = is_parking (map (fun x => x + 1) c) /\
  reduced_b (complete_graph (S (S k))) 0%nat (0 :: c) = is_parking (map (fun x => x + 1) c).
Proof. intros k c Hlen. pose proof (Kn_superstables_are_parking k c Hlen) as H. split; [|exact H].
  rewrite <- H. apply (superstable_enum_eq_burn (Kn k) (Kn_wf k)). apply in_VKn. apply Nat.lt_0_succ. Qed.
Print Assumptions C10_superstables_of_Kn_are_parking_functions.
(* sorted form (as implemented) = counting form #{i | a_i <= j} >= j for j = 1..n, every sequence of every length *)
Theorem C10_parking_predicate_forms_agree : forall a, a <> [] -> is_parking a = is_parking_count a.
Proof. exact parking_forms_agree. Qed.
Print Assumptions C10_parking_predicate_forms_agree.

(* the generator returns exactly (n+1)^(n-1) sequences, none twice, for EVERY n (Pollak's circular argument / the cycle lemma, Link/ParkingCount.v);
   with C10_generate_parking these are exactly the parking functions, so there are (n+1)^(n-1) of them *)
Theorem C10_parking_count : forall n, Z.of_nat (length (generate_parking n)) = parking_count n /\ NoDup (generate_parking n).
Proof. intros n. split; [apply generate_parking_count|apply generate_parking_nodup]. Qed.
Print Assumptions C10_parking_count.
(* hence K_(n+1) has exactly (n+1)^(n-1) superstable configurations w.r.t. sink 0 (Cayley's number of spanning trees), n = k + 1 *)
Theorem C10_superstable_count_complete_graph : forall k, count_superstables (complete_graph (S (S k))) 0%nat = Z.of_nat (S (S k)) ^ Z.of_nat k.
Proof. exact Kn_superstable_count. Qed.
Print Assumptions C10_superstable_count_complete_graph.

(* MATRIX-TREE, every connected multigraph (any multiplicities), every sink: the number of superstable configurations - counted by enumerating the
   valence box, as the implementation does - equals the determinant of the reduced Laplacian (cofactor expansion), and that determinant is positive *)
Theorem C10_superstable_count_eq_det : forall g, wfb g = true -> connected_b g = true -> forall q, In q (Vg g) ->
  count_superstables g q = det (lap_reduced g q) /\ 0 < det (lap_reduced g q).
Proof. exact matrix_tree. Qed.
Print Assumptions C10_superstable_count_eq_det.
(* what is behind it, part 1: the superstables w.r.t. q contain exactly one representative of every class of Z^(n-1) modulo the integer combinations
   of the rows of the reduced Laplacian (existence: the reduction terminates; uniqueness: C02_unique) *)
Theorem C10_superstables_are_a_transversal : forall g, wfb g = true -> connected_b g = true -> forall q, In q (Vg g) ->
  transversal (kk g) (LQ g q) (superstables g q).
Proof. exact superstables_transversal. Qed.
Print Assumptions C10_superstables_are_a_transversal.
(* part 2, pure linear algebra over Z: any finite transversal of Z^n modulo the row lattice of an n x n integer matrix has |det| elements, det <> 0 *)
Theorem C10_lattice_index : forall n M T, transversal n M T -> Z.of_nat (length T) = Z.abs (fdet n M) /\ fdet n M <> 0.
Proof. exact lattice_index. Qed.
Print Assumptions C10_lattice_index.

(* ---- tie to the source text: the functions translated from /repo's current CFCombinatorics.py (Translated.v, regenerated on every run) are
   the model functions used above ---- *)
Theorem C10_source_is_parking_function : forall a, Translated.is_parking_function a None = is_parking a /\
  forall n, Translated.is_parking_function a (Some n) = is_parking_n a (Z.to_nat n).
Proof. intros a. split; [apply is_parking_function_none|intros n; apply is_parking_function_some]. Qed.
Print Assumptions C10_source_is_parking_function.
Theorem C10_source_parking_function_count : forall n, Translated.parking_function_count n = parking_count (Z.to_nat n).
Proof. exact parking_function_count_eq. Qed.
Print Assumptions C10_source_parking_function_count.

(* CFConfig.get_out_degree_S as translated from /repo's CURRENT source by tools/translate_imp.py (TranslatedImpCFConfig.v): on dictionaries representing g
   it is the out-degree of v with respect to S in terms of which legality is defined (Defs.outdeg, C10_legal), and it raises exactly for an unknown v,
   for q, and for v outside S *)
Theorem C10_source_get_out_degree_S : forall g gg vs q v S, wfb g = true -> rep_graph gg g -> rep_vset (nv g) vs ->
  CFConfig_get_out_degree_S vs q gg v S = (if Nat.ltb v (nv g) && negb (Nat.eqb v q) && mem v S then PyOk (out_degree_S g v S) else PyExn tt) /\
  out_degree_S g v S = outdeg (Vg g) (mult g) (fun w => mem w S) v.
Proof. intros. split; [apply get_out_degree_S_refines; assumption|reflexivity]. Qed.
Print Assumptions C10_source_get_out_degree_S.

(* the readers of a configuration, translated from /repo's CURRENT source (TranslatedImpCFConfigMoves.v): on a dictionary representing the divisor D and a set
   representing V - {q}, get_degree_at answers D(v) exactly for v in V - {q} and raises otherwise; get_q_underlying_degree answers D(q); get_degree_sum is the
   sum of D over V - {q} and is_non_negative says whether D >= 0 there - whatever order the set is iterated in; the latter is the model's nonneg_off *)
Theorem C10_source_config_readers : forall g q vt dd D so, rep_vtilde (nv g) q vt -> NoDup vt -> rep_div (nv g) dd D -> (forall l, Permutation.Permutation (so l) l) ->
  (forall v, CFConfigMoves_get_degree_at q vt dd v = if inb g v && negb (Nat.eqb v q) then PyOk (nthZ D v) else PyExn tt) /\
  CFConfigMoves_get_q_underlying_degree dd q = (if inb g q then PyOk (nthZ D q) else PyExn tt) /\
  CFConfigMoves_get_degree_sum vt q dd so = PyOk (zsum (nthZ D) (vtilde g q)) /\
  CFConfigMoves_is_non_negative vt q dd so = PyOk (nonneg_off g q D).
Proof. intros g q vt dd D so Hvt Hnd HR Hso. split; [intros v; apply config_get_degree_at_refines; assumption|]. split; [apply config_get_q_underlying_degree_refines; assumption|].
  split; [apply config_get_degree_sum_refines; assumption|]. rewrite nonneg_off_vtilde. apply config_is_non_negative_refines; assumption. Qed.
Print Assumptions C10_source_config_readers.
(* get_config_degrees_as_dict / get_q_vertex_name / get_v_tilde_names, translated from the CURRENT source: the dictionary has exactly one entry D(v) for every vertex v other
   than q and none for q or for a non-vertex, and the call is never refused - for every iteration order of the set; the other two return q and the set V - {q} *)
Theorem C10_source_config_as_dict : forall g q vt dd D so, rep_vtilde (nv g) q vt -> NoDup vt -> rep_div (nv g) dd D -> (forall l, Permutation.Permutation (so l) l) ->
  (exists r, CFConfigMoves_get_config_degrees_as_dict vt q dd so = PyOk r /\ forall u, d_find u r = if inb g u && negb (Nat.eqb u q) then Some (nthZ D u) else None) /\
  CFConfigMoves_get_q_vertex_name q = q /\ CFConfigMoves_get_v_tilde_names vt = vt.
Proof. intros g q vt dd D so Hvt Hnd HR Hso. split; [apply config_as_dict_refines; assumption|apply config_name_readers_refine]. Qed.
Print Assumptions C10_source_config_as_dict.
Example C10_source_config_as_dict_nonvacuous :
  CFConfigMoves_get_config_degrees_as_dict [0;2]%nat 1%nat [(0%nat, 5); (1%nat, -7); (2%nat, 2^70)] (fun l => rev l) = PyOk [(2%nat, 2^70); (0%nat, 5)].
Proof. vm_compute. reflexivity. Qed.

(* the constructor CFConfig(divisor, q), translated from the CURRENT source: refused exactly when q is not a vertex; otherwise the configuration remembers q and the
   duplicate-free set V - {q}, i.e. the hypotheses of C10_source_config_readers hold for every constructed configuration *)
Theorem C10_source_config_constructor : forall n vs dd q, rep_vset n vs -> NoDup vs ->
  match CFConfigMoves___init__ vs dd q with
  | PyOk (qv, vt) => Nat.ltb q n = true /\ qv = q /\ rep_vtilde n q vt /\ NoDup vt
  | PyExn _ => Nat.ltb q n = false end.
Proof. exact config_ctor_refines. Qed.
Print Assumptions C10_source_config_constructor.

(* the comparisons of two configurations, translated from the CURRENT source: c1 and c2 are comparable exactly when they have the same sink on equal multigraphs
   (comparable_b = (q1 =? q2) && graph_eqb g1 g2); then c1 == c2, c1 >= c2, c1 <= c2, c1 < c2, c1 > c2 are cfg_eq / cfg_le / cfg_lt of the model - the order of C10_order - on V - {q};
   for incomparable configurations == answers False and >=, <=, <, > raise. Every iteration order of the sets gives the same answers. *)
Theorem C10_source_order : forall g1 g2 gg1 gg2 vs1 vs2 q1 q2 vt1 vt2 dd1 dd2 D E so, wfb g1 = true -> wfb g2 = true -> rep_graph gg1 g1 -> rep_graph gg2 g2 ->
  rep_vset (nv g1) vs1 -> rep_vset (nv g2) vs2 -> rep_vtilde (nv g1) q1 vt1 -> rep_vtilde (nv g2) q2 vt2 -> NoDup vt1 -> rep_div (nv g1) dd1 D -> rep_div (nv g2) dd2 E ->
  (forall l, Permutation.Permutation (so l) l) ->
  CFConfigMoves__is_comparable_to q1 vs1 gg1 so q2 vs2 gg2 vt2 dd2 = PyOk (comparable_b g1 g2 q1 q2) /\
  CFConfigMoves___eq__ q1 vs1 gg1 vt1 dd1 so q2 vs2 gg2 vt2 dd2 = PyOk (comparable_b g1 g2 q1 q2 && cfg_eq g1 q1 D E) /\
  CFConfigMoves___ge__ q1 vs1 gg1 vt1 dd1 so q2 vs2 gg2 vt2 dd2 = (if comparable_b g1 g2 q1 q2 then PyOk (cfg_le g1 q1 E D) else PyExn tt) /\
  CFConfigMoves___le__ q1 vs1 gg1 vt1 dd1 so q2 vs2 gg2 vt2 dd2 = (if comparable_b g1 g2 q1 q2 then PyOk (cfg_le g1 q1 D E) else PyExn tt) /\
  CFConfigMoves___lt__ q1 vs1 gg1 vt1 dd1 so q2 vs2 gg2 vt2 dd2 = (if comparable_b g1 g2 q1 q2 then PyOk (cfg_lt g1 q1 D E) else PyExn tt) /\
  CFConfigMoves___gt__ q1 vs1 gg1 vt1 dd1 so q2 vs2 gg2 vt2 dd2 = (if comparable_b g1 g2 q1 q2 then PyOk (cfg_lt g1 q1 E D) else PyExn tt).
Proof. intros g1 g2 gg1 gg2 vs1 vs2 q1 q2 vt1 vt2 dd1 dd2 D E so W1 W2 G1 G2 V1 V2 T1 T2 N1 R1 R2 Hso. split; [apply comparable_refines; assumption|].
  split; [apply config_eq_refines; assumption|]. split; [apply config_ge_refines; assumption|]. split; [apply config_le_refines; assumption|]. split; [apply config_lt_refines; assumption|apply config_gt_refines; assumption]. Qed.
Print Assumptions C10_source_order.

(* CFConfig.is_legal_set_firing translated from the CURRENT source - validation of the members, `self.copy()` (checked to be CFConfig(copy.deepcopy(self.divisor), q): the translated
   constructor on equal dictionaries), set_fire on the copy, then the test of the members: it is exactly is_legal_set_firing of the model, whose meaning is C10_legal and whose
   refusals are C10_legal_refusals; the configuration itself is only read (the result carries no state) *)
Theorem C10_source_is_legal_set_firing : forall g gg vs q vt dd D so U, wfb g = true -> rep_graph gg g -> rep_vset (nv g) vs -> NoDup vs -> rep_vtilde (nv g) q vt -> (q < nv g)%nat ->
  rep_div (nv g) dd D -> (forall l, Permutation.Permutation (so l) l) ->
  CFConfigMoves_is_legal_set_firing q vt vs dd gg so U = match is_legal_set_firing g q D U with Err => PyExn tt | Ok b => PyOk b end.
Proof. intros g gg vs q vt dd D so U Hwf Hg Hvs Hnd Hvt Hq HD Hso. apply is_legal_set_firing_refines; assumption. Qed.
Print Assumptions C10_source_is_legal_set_firing.

(* CFConfig.is_superstable translated from the CURRENT source: the non-negativity test, then for every size i = 1 .. |V - {q}| every itertools.combinations(V - {q}, i) - the
   subsequences of whatever order Python iterates the set in - is put to the translated is_legal_set_firing. The answer is exactly superstable_enum, i.e. (C10_superstable)
   superstability as defined and (C10_superstable_eq_burn) Dhar's criterion; no exception can escape *)
Theorem C10_source_is_superstable : forall g gg vs q vt dd D so, wfb g = true -> rep_graph gg g -> rep_vset (nv g) vs -> NoDup vs -> rep_vtilde (nv g) q vt -> NoDup vt -> (q < nv g)%nat ->
  rep_div (nv g) dd D -> (forall l, Permutation.Permutation (so l) l) ->
  CFConfigMoves_is_superstable vt q dd vs gg so = PyOk (superstable_enum g q D).
Proof. intros g gg vs q vt dd D so Hwf Hg Hvs Hnd Hvt Hndt Hq HD Hso. apply is_superstable_refines; assumption. Qed.
Print Assumptions C10_source_is_superstable.

(* ---- bounded identities (complete finite domains, kernel computation) ---- *)
(* K_(n+1), n <= 4, sink 0: a configuration in the box [0..n]^n is superstable iff shifting it up by one gives a parking function *)
Theorem C10_superstables_of_Kn_are_parking_functions_bounded : forallb (fun n =>
  forallb (fun c => Bool.eqb (reduced_b (complete_graph (S n)) 0%nat (0 :: c)) (is_parking (map (fun x => x + 1) c)))
          (all_seqs (map Z.of_nat (seq 0 (S n))) n)) [1;2;3;4]%nat = true.
Proof. vm_compute. reflexivity. Qed.
Print Assumptions C10_superstables_of_Kn_are_parking_functions_bounded.
(* the generator produces (n+1)^(n-1) sequences, without duplicates, n <= 6 *)
Theorem C10_parking_count_bounded : forallb (fun n => (Z.of_nat (length (generate_parking n)) =? parking_count n) &&
  (Z.of_nat (length (nodup (list_eq_dec Z.eq_dec) (generate_parking n))) =? parking_count n)) [1;2;3;4;5]%nat = true.
Proof. vm_compute. reflexivity. Qed.
Print Assumptions C10_parking_count_bounded.
(* sorted form of the predicate (as implemented) = counting form #{i | a_i <= j} >= j, all sequences over 0..n+1 of length n <= 5 *)
Theorem C10_parking_predicate_forms_agree_bounded : forallb (fun n =>
  forallb (fun a => Bool.eqb (is_parking a) (match a with [] => true | _ => is_parking_count a end)) (all_seqs (map Z.of_nat (seq 0 (n + 2))) n)) [0;1;2;3;4;5]%nat = true.
Proof. vm_compute. reflexivity. Qed.
Print Assumptions C10_parking_predicate_forms_agree_bounded.
(* matrix-tree: #superstables = det(reduced Laplacian), all multigraphs on 3 vertices with multiplicities <= 3 and on 4 vertices with
   multiplicities <= 1, every sink *)
Definition graphs3 : list graph := flat_map (fun a => flat_map (fun b => map (fun c => [[0;a;b];[a;0;c];[b;c;0]]) [0;1;2;3]) [0;1;2;3]) [0;1;2;3].
Definition graphs4 : list graph := flat_map (fun a => flat_map (fun b => flat_map (fun c => flat_map (fun d => flat_map (fun e => map (fun f =>
  [[0;a;b;c];[a;0;d;e];[b;d;0;f];[c;e;f;0]]) [0;1]) [0;1]) [0;1]) [0;1]) [0;1]) [0;1].
Theorem C10_superstable_count_eq_det_bounded :
  forallb (fun g => forallb (fun q => count_superstables g q =? det (lap_reduced g q)) (Vg g)) (graphs3 ++ graphs4) = true.
Proof. vm_compute. reflexivity. Qed.
Print Assumptions C10_superstable_count_eq_det_bounded.

Example C10_matrix_tree_nonvacuous : let g := [[0;2;1];[2;0;3];[1;3;0]] in
  wfb g = true /\ connected_b g = true /\ count_superstables g 1%nat = 11 /\ det (lap_reduced g 1%nat) = 11 /\ length (superstables g 1%nat) = 11%nat.
Proof. repeat split; vm_compute; reflexivity. Qed.
Example C10_nonvacuous : let g := [[0;1;0];[1;0;1];[0;1;0]] in
  legal_b g [0;1;0] [1;2]%nat = true /\ legal_b g [0;1;0] [1]%nat = false /\ superstable_enum g 0%nat [0;1;0] = false /\ superstable_enum g 0%nat [0;0;0] = true /\
  is_parking [2;1;2] = true /\ is_parking [2;3;2] = false /\ length (generate_parking 3) = 16%nat.
Proof. repeat split; vm_compute; reflexivity. Qed.
