(* C16  Analyses never change the game they were handed.
   In the model graphs and divisors are immutable values, so 'no analysis modifies a graph' and 'pure entry points leave their arguments
   unchanged' hold by construction; what the model can say is which calls replace the caller's divisor and by what. The tie to the Python
   object graph (aliasing, in-place writes) is the snapshot comparison of the correspondence run - the weakest link, declared in DESIGN.md. *)
From Coq Require Import ZArith List Bool.
Import ListNotations.
From CF Require Import ZSum ListAux Defs Core DharLink IndepLink.
Open Scope Z_scope.

(* the in-place reduction family replaces the divisor by one on the same graph, in the same class, with the same total degree *)
Theorem C16_inplace_family : forall g, wfb g = true -> forall fuel q D b R B, In q (Vg g) -> length D = nv g -> ewd_q fuel g q D = Done (b, R, B) ->
  length R = nv g /\ lequiv (Vg g) (mult g) (nthZ D) (nthZ R) /\ degD g R = degD g D.
Proof. intros g Hwf fuel q D b R B Hq HL H. destruct (ewd_q_sound g Hwf fuel q D b R B Hq HL H) as [E1 [_ [E3 _]]].
  split; auto. split; auto. now apply (GraphLink.degD_lequiv g Hwf). Qed.
Print Assumptions C16_inplace_family.
(* arbitrary sequences of analysis calls (repeated calls on the same object included): the divisor never leaves its class *)
Theorem C16_any_call_sequence : forall g, wfb g = true -> forall fuel cs D, length D = nv g -> (forall q, In (CReduce q) cs -> In q (Vg g)) ->
  let D' := fold_left (apply_call fuel g) cs D in
  length D' = nv g /\ lequiv (Vg g) (mult g) (nthZ D) (nthZ D') /\ degD g D' = degD g D.
Proof. exact calls_keep_class. Qed.
Print Assumptions C16_any_call_sequence.
