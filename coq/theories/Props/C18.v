(* C18  Visualisation recording does not perturb results; drawn elements mirror objects.
   Recording: the recording run computes exactly what the plain run computes, every snapshot is a value in the class of the input and the
   last one is the returned divisor. Drawn elements: specification of the element lists as functions of the object (ids, labels, arrows);
   the Dash / Cytoscape rendering is out of scope. *)
From Coq Require Import ZArith List Bool Lia Arith.
Import ListNotations.
From CF Require Import ZSum ListAux Defs Core Machines IndepLink.
Open Scope Z_scope.

Theorem C18_recording_does_not_perturb : forall g, wfb g = true -> forall fuel q ord, In q (Vg g) -> (forall v, In v ord -> In v (Vg g)) ->
  forall D hist R B h, length D = nv g -> reduce_loop_rec fuel g q ord D hist = Done (R, B, h) ->
  reduce_loop fuel g q ord D = Done (R, B) /\
  (exists new, h = hist ++ new /\ new <> [] /\ last new [] = R /\ forall X, In X new -> length X = nv g /\ lequiv (Vg g) (mult g) (nthZ D) (nthZ X)).
Proof. exact reduce_loop_rec_spec. Qed.
Print Assumptions C18_recording_does_not_perturb.

(* element lists: one node per vertex; for every pair a < b, mult(a,b) edge elements with ids a-b-0 .. a-b-(m-1); labels show the chips;
   an edge element carries an arrow exactly when the edge is oriented, pointing source -> target as stored *)
Definition edge_elements (g : graph) : list (nat * nat * nat) :=
  flat_map (fun a => flat_map (fun b => if Nat.ltb a b then map (fun i => (a, b, i)) (seq 0 (Z.to_nat (mult g a b))) else []) (Vg g)) (Vg g).
Definition node_labels (g : graph) (D : div) : list (nat * Z) := map (fun v => (v, nthZ D v)) (Vg g).
Definition arrow_of (s : ostate) (a b : nat) : option (nat * nat) :=
  if dir_at s a b =? 1 then Some (a, b) else if dir_at s a b =? 2 then Some (b, a) else None.
Theorem C18_edge_elements_spec : forall g a b i, In (a, b, i) (edge_elements g) <-> In a (Vg g) /\ In b (Vg g) /\ (a < b)%nat /\ (i < Z.to_nat (mult g a b))%nat.
Proof. intros g a b i. unfold edge_elements. rewrite in_flat_map. split.
  - intros [x [Hx H]]. apply in_flat_map in H. destruct H as [y [Hy H]]. destruct (Nat.ltb_spec x y); [|destruct H].
    apply in_map_iff in H. destruct H as [j [E Hj]]. inversion E; subst. apply in_seq in Hj. repeat split; auto; lia.
  - intros [Ha [Hb [Hlt Hi]]]. exists a. split; auto. apply in_flat_map. exists b. split; auto. apply Nat.ltb_lt in Hlt. rewrite Hlt.
    apply in_map_iff. exists i. split; auto. apply in_seq. lia. Qed.
Print Assumptions C18_edge_elements_spec.
Theorem C18_node_labels_spec : forall g D v x, In (v, x) (node_labels g D) <-> In v (Vg g) /\ x = nthZ D v.
Proof. intros. unfold node_labels. rewrite in_map_iff. split; [intros [w [E H]]; inversion E; subst; auto|intros [H ->]; exists v; auto]. Qed.
Print Assumptions C18_node_labels_spec.
Theorem C18_arrow_spec : forall s a b, a <> b ->
  (arrow_of s a b = Some (a, b) <-> dir_at s a b = 1) /\ (arrow_of s a b = Some (b, a) <-> dir_at s a b = 2) /\
  (arrow_of s a b = None <-> dir_at s a b <> 1 /\ dir_at s a b <> 2).
Proof. intros s a b Hab. unfold arrow_of. destruct (Z.eqb_spec (dir_at s a b) 1) as [E|N]; [|destruct (Z.eqb_spec (dir_at s a b) 2) as [E2|N2]];
  (split; [|split]); split; intros H; try discriminate; try lia; try reflexivity; try (inversion H; congruence); try (destruct H; congruence); try congruence; auto. Qed.
Print Assumptions C18_arrow_spec.
