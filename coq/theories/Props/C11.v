(* C11  Orientation counters stay consistent; orientation divisors obey K identities. *)
From Coq Require Import Permutation ZArith List Bool.
Import ListNotations.
From CF Require Import ZSum ListAux Defs Reduced Core Machines OrientLink OrientRound PyDict ImpRep TranslatedImpCFOrientation ImpLinkOrient.
Open Scope Z_scope.

(* The invariant oinv: in/out counters equal the recount over edges currently pointing in/out, the two endpoint entries of every edge are
   mirror images, stored states are the three enum values, and a fullness cache marked 'checked' tells the truth.
   It holds after construction and after ANY history of set_orientation (three states, both endpoint orders, also refused calls on
   non-edges), check_fullness, divisor and reverse calls. *)
Theorem C11_construct : forall g, wfb g = true -> forall os s, oconstruct g os = Ok s -> oinv g s /\ is_full_checked s = true.
Proof. exact oconstruct_inv. Qed.
Print Assumptions C11_construct.
Theorem C11_history : forall g, wfb g = true -> forall ops s, oinv g s -> oinv g (fold_left (oapply g) ops s).
Proof. exact orientation_history_inv. Qed.
Print Assumptions C11_history.
Theorem C11_invariant_meaning : forall g s, oinv g s ->
  (forall a b, (a < nv g)%nat -> (b < nv g)%nat -> dir_at s b a = mirror (dir_at s a b)) /\
  (forall v, (v < nv g)%nat -> nthZ (inc s) v = zsum (fun w => if dir_at s w v =? 1 then mult g v w else 0) (Vg g) /\
                               nthZ (outc s) v = zsum (fun w => if dir_at s v w =? 1 then mult g v w else 0) (Vg g)) /\
  (is_full_checked s = true -> is_full s = full_b g s).
Proof. intros g s [_ [_ [_ [_ [H1 [H2 [H3 _]]]]]]]. split; [exact H1|]. split; [exact H2|exact H3]. Qed.
Print Assumptions C11_invariant_meaning.
(* fullness is reported exactly when no edge is unoriented *)
Theorem C11_fullness : forall g, wfb g = true -> forall s, oinv g s ->
  (full_b g s = true <-> forall a b, (a < nv g)%nat -> (b < nv g)%nat -> 0 < mult g a b -> dir_at s a b <> 0).
Proof. exact full_b_spec. Qed.
Print Assumptions C11_fullness.
(* divisor() is granted exactly on full orientations (whatever the cache flags) and is in-degree minus one *)
Theorem C11_divisor : forall g, wfb g = true -> forall s, oinv g s -> match snd (o_divisor g s) with
  | Ok D => full_b g s = true /\ forall v, (v < nv g)%nat -> nthZ D v = recount_in g (dir s) v - 1
  | Err => full_b g s = false end.
Proof. intros g _. apply o_divisor_spec. Qed.
Print Assumptions C11_divisor.
(* for every full orientation: degree g - 1 *)
Theorem C11_degree : forall g, wfb g = true -> forall s, oinv g s -> full_b g s = true ->
  zsum (fun v => recount_in g (dir s) v - 1) (Vg g) = genus_g g - 1.
Proof. exact orientation_divisor_degree. Qed.
Print Assumptions C11_degree.
(* D(O) + D(reverse O) = K = valence - 2  (s' any consistent state holding the reversed directions) *)
Theorem C11_plus_reverse_is_canonical : forall g, wfb g = true -> forall s, oinv g s -> full_b g s = true ->
  forall s', oinv g s' -> (forall a b, dir_at s' a b = dir_at s b a) ->
  forall v, (v < nv g)%nat -> (recount_in g (dir s) v - 1) + (recount_in g (dir s') v - 1) = valg g v - 2.
Proof. exact orientation_plus_reverse. Qed.
Print Assumptions C11_plus_reverse_is_canonical.
(* directions are only ever stored on edges, over every history *)
Theorem C11_edges_construct : forall g, wfb g = true -> forall os s, oconstruct g os = Ok s -> oedges g s.
Proof. exact oconstruct_edges. Qed.
Print Assumptions C11_edges_construct.
Theorem C11_edges_history : forall g, wfb g = true -> forall ops s, oinv g s -> oedges g s -> oedges g (fold_left (oapply g) ops s).
Proof. exact orientation_history_edges. Qed.
Print Assumptions C11_edges_history.
(* reverse() is granted exactly on full orientations and returns exactly the transposed orientation, for every reachable state *)
Theorem C11_reverse_exact : forall g, wfb g = true -> forall s, oinv g s -> oedges g s -> match snd (o_reverse g s) with
  | Ok s' => full_b g s = true /\ oinv g s' /\ oedges g s' /\ is_full_checked s' = true /\ forall a b, dir_at s' a b = dir_at s b a
  | Err => full_b g s = false end.
Proof. exact o_reverse_spec. Qed.
Print Assumptions C11_reverse_exact.
(* hence, with the actual result of reverse(): D(O) + D(reverse O) = K *)
Theorem C11_reverse_canonical : forall g, wfb g = true -> forall s s', oinv g s -> oedges g s -> snd (o_reverse g s) = Ok s' ->
  forall v, (v < nv g)%nat -> (recount_in g (dir s) v - 1) + (recount_in g (dir s') v - 1) = valg g v - 2.
Proof. intros g Hwf s s' Hs He H v Hv. pose proof (o_reverse_spec g Hwf s Hs He) as R. rewrite H in R. destruct R as [Hf [Hs' [_ [_ Hd]]]].
  exact (orientation_plus_reverse g Hwf s Hs Hf s' Hs' Hd v Hv). Qed.
Print Assumptions C11_reverse_canonical.
(* what the constructor builds from any list of distinct arcs (no edge in both directions) *)
Theorem C11_constructor_exact : forall g, wfb g = true -> forall ps, arcs_ok g ps -> exists s', oconstruct g ps = Ok s' /\ oinv g s' /\ is_full_checked s' = true /\
    forall x y, dir_at s' x y = if has ps x y then 1 else if has ps y x then 2 else 0.
Proof. exact construct_spec. Qed.
Print Assumptions C11_constructor_exact.
(* acyclic (consistent with some vertex order) => the orientation divisor is unwinnable *)
Theorem C11_acyclic_unwinnable : forall g, wfb g = true -> forall s, oinv g s -> full_b g s = true -> forall pos : nat -> nat, (0 < nv g)%nat ->
  (forall a b, (a < nv g)%nat -> (b < nv g)%nat -> 0 < mult g a b -> mult (dir s) a b = 1 -> (pos a < pos b)%nat) ->
  ~ winnable (Vg g) (mult g) (fun v => recount_in g (dir s) v - 1).
Proof. intros g Hwf s _ _. exact (acyclic_orientation_unwinnable g Hwf s). Qed.
Print Assumptions C11_acyclic_unwinnable.
(* the same for the abstract statement: every vertex order on every multigraph *)
Theorem C11_acyclic_unwinnable_abstract : forall V m, (forall v w, 0 <= m v w) -> forall pos : nat -> nat, V <> [] -> ~ winnable V m (orient_div V m pos).
Proof. exact acyclic_unwinnable. Qed.
Print Assumptions C11_acyclic_unwinnable_abstract.

(* ---- tie to the source text: CFOrientation.set_orientation as translated from /repo's CURRENT source by tools/translate_imp.py
   (TranslatedImpCFOrientation.v; the members of OrientationState are the integers the source gives them, 0 / 1 / 2). On dictionaries representing an
   orientation state that satisfies the invariant - rep_ostate: the orientation table holds dir for every edge in both directions, the two counter
   tables hold inc / outc, the two flags are equal - it ends with a KeyError and UNTOUCHED dictionaries exactly when the model refuses (unknown endpoint,
   no edge), and otherwise all five fields represent the model's next state, for each of the three states and whatever the edge's old state was ---- *)
Theorem C11_source_set_orientation : forall g, wfb g = true -> forall gg, rep_graph gg g -> forall oo outd ind isf isfc s a b st,
  oinv g s -> rep_ostate g oo outd ind isf isfc s -> (st = 0 \/ st = 1 \/ st = 2) ->
  match CFOrientation_set_orientation oo gg outd ind isf isfc a b st with
  | PyExn e => set_orientation g s a b st = Err /\ e = (outd, ind, oo, isf, isfc)
  | PyOk (outd', ind', oo', isf', isfc') => exists s', set_orientation g s a b st = Ok s' /\ rep_ostate g oo' outd' ind' isf' isfc' s' end.
Proof. exact set_orientation_refines. Qed.
Print Assumptions C11_source_set_orientation.
(* check_fullness as translated from the current source (nested loops over the vertex set - in ANY iteration order `so` - and over the adjacency rows, leaving
   both loops at the first edge without a direction): it never raises on representing dictionaries, answers full_b, and leaves is_full = full_b,
   is_full_checked = true, which is the model's check_fullness; the two counters read as the model's inc / outc *)
Theorem C11_source_check_fullness : forall g, wfb g = true -> forall gg, rep_graph gg g -> forall oo s, rep_orient oo g s -> forall isf isfc vs (so : list nat -> list nat),
  rep_vset (nv g) vs -> (forall l, Permutation (so l) l) ->
  CFOrientation_check_fullness isf isfc vs gg oo so = PyOk (full_b g s, (full_b g s, true)) /\
  check_fullness g s = ({| dir := dir s; inc := inc s; outc := outc s; is_full := full_b g s; is_full_checked := true |}, full_b g s).
Proof. intros g Hwf gg Hgg oo s Ho isf isfc vs so Hvs Hso. split; [apply (check_fullness_refines g Hwf gg Hgg oo s Ho isf isfc vs so Hvs Hso)|reflexivity]. Qed.
Print Assumptions C11_source_check_fullness.
Theorem C11_source_counters : forall g gg ind outd s v, rep_graph gg g -> rep_div (nv g) ind (inc s) -> rep_div (nv g) outd (outc s) ->
  CFOrientation_get_in_degree gg ind v = (if Nat.ltb v (nv g) then PyOk (nthZ (inc s) v) else PyExn tt) /\
  CFOrientation_get_out_degree gg outd v = (if Nat.ltb v (nv g) then PyOk (nthZ (outc s) v) else PyExn tt).
Proof. exact get_in_out_degree_refines. Qed.
Print Assumptions C11_source_counters.
(* the readers of single edges, translated from the CURRENT source (results annotated Optional[...] become option): they raise exactly when a, b is not an edge,
   and otherwise report the recorded state of the edge as seen from a - None while it is unoriented, the pair (source, sink) / whether a is its source / its sink *)
Theorem C11_source_edge_readers : forall g gg oo s, rep_graph gg g -> rep_orient oo g s -> forall a b,
  CFOrientation_get_orientation gg oo a b = (if edge_ok g a b then PyOk (if dir_at s a b =? 0 then None else if dir_at s a b =? 1 then Some (a, b) else Some (b, a)) else PyExn tt) /\
  CFOrientation_is_source gg oo a b = (if edge_ok g a b then PyOk (if dir_at s a b =? 0 then None else Some (dir_at s a b =? 1)) else PyExn tt) /\
  CFOrientation_is_sink gg oo a b = (if edge_ok g a b then PyOk (if dir_at s a b =? 0 then None else Some (dir_at s a b =? 2)) else PyExn tt).
Proof. intros g gg oo s Hg Ho a b. split; [apply get_orientation_refines; assumption|]. split; [apply is_source_refines; assumption|apply is_sink_refines; assumption]. Qed.
Print Assumptions C11_source_edge_readers.
(* divisor() and canonical_divisor(), translated from the CURRENT source (they build [(v, in-degree(v) - 1)] resp. [(v, valence(v) - 2)] over the vertex set and hand it to the
   translated CFDivisor constructor): divisor() is exactly the model's o_divisor - it checks fullness if that has not been done, refuses an orientation that is not full and
   otherwise returns a new divisor representing in-degree - 1; canonical_divisor() represents canonical_g (valence - 2); any iteration order *)
Theorem C11_source_divisors : forall g gg vs so, wfb g = true -> rep_graph gg g -> rep_vset (nv g) vs -> NoDup vs -> (forall l, Permutation (so l) l) ->
  (forall oo s ind, rep_orient oo g s -> rep_div (nv g) ind (inc s) ->
     match CFOrientation_divisor (is_full_checked s) (is_full s) vs gg oo ind so with
     | PyOk ((dd, t), (isf', isfc')) => o_divisor g s = (ensure_checked g s, Ok (tab (nv g) (fun v => nthZ (inc (ensure_checked g s)) v - 1))) /\
          isf' = is_full (ensure_checked g s) /\ isfc' = is_full_checked (ensure_checked g s) /\
          rep_div (nv g) dd (tab (nv g) (fun v => nthZ (inc (ensure_checked g s)) v - 1)) /\ t = zsum (fun v => nthZ (inc (ensure_checked g s)) v - 1) (seq 0 (nv g))
     | PyExn (isf', isfc') => o_divisor g s = (ensure_checked g s, Err) /\ isf' = is_full (ensure_checked g s) /\ isfc' = is_full_checked (ensure_checked g s) end) /\
  (forall vtv V, rep_div (nv g) vtv V -> (forall v, (v < nv g)%nat -> nthZ V v = valg g v) ->
     exists dd, CFOrientation_canonical_divisor vs vtv gg so = PyOk (dd, zsum (fun v => valg g v - 2) (seq 0 (nv g))) /\ rep_div (nv g) dd (canonical_g g)).
Proof. intros g gg vs so Hwf Hg Hvs Hnd Hso. split.
  - intros oo s ind Ho Hi. pose proof (divisor_refines g Hwf gg Hg vs Hvs Hnd so Hso oo s ind Ho Hi) as H. cbv zeta in H.
    destruct (CFOrientation_divisor (is_full_checked s) (is_full s) vs gg oo ind so) as [[[dd t] [a b]]|[a b]].
    + destruct H as (H1 & H2 & H3 & H4 & H5). split; [unfold o_divisor; cbv zeta; rewrite H1; reflexivity|]. split; [exact H2|]. split; [exact H3|]. split; [exact H4|exact H5].
    + destruct H as (H1 & H2 & H3). split; [unfold o_divisor; cbv zeta; rewrite H1; reflexivity|]. split; [exact H2|exact H3].
  - intros vtv V HV Hval. apply (canonical_divisor_refines g gg Hg vs Hvs Hnd so Hso vtv V HV Hval). Qed.
Print Assumptions C11_source_divisors.
Example C11_source_nonvacuous : let g := [[0;2;1];[2;0;1];[1;1;0]] in
  let oo := [(0%nat, [(1%nat, 0); (2%nat, 0)]); (1%nat, [(0%nat, 0); (2%nat, 0)]); (2%nat, [(0%nat, 0); (1%nat, 0)])] in
  match CFOrientation_set_orientation oo (dict_of_graph g) (dict_of_div [0;0;0]) (dict_of_div [0;0;0]) false false 1%nat 0%nat 1 with
  | PyOk (outd, ind, oo', isf, isfc) => d_find 1%nat outd = Some 2 /\ d_find 0%nat ind = Some 2 /\ (match d_find 0%nat oo' with Some r => d_find 1%nat r | None => None end) = Some 2
  | PyExn _ => False end /\
  CFOrientation_set_orientation oo (dict_of_graph g) (dict_of_div [0;0;0]) (dict_of_div [0;0;0]) false false 1%nat 1%nat 1 = PyExn (dict_of_div [0;0;0], dict_of_div [0;0;0], oo, false, false).
Proof. vm_compute. repeat split. Qed.

Example C11_nonvacuous : let g := [[0;2;1];[2;0;1];[1;1;0]] in
  match oconstruct g [(0,1);(2,1)]%nat with Ok s =>
    match set_orientation g s 2 0 2 with Ok s2 => inc s2 = [0;3;1] /\ outc s2 = [3;0;1] /\ snd (o_divisor g s2) = Ok [-1;2;0] /\ snd (o_divisor g s) = Err | Err => False end
  | Err => False end.
Proof. vm_compute. repeat split. Qed.
