(* C12  Divisor arithmetic is the free abelian group on the vertices. *)
From Coq Require Import ZArith List Bool Lia.
Import ListNotations.
From CF Require Import ZSum ListAux Defs Core Machines GraphLink QredLink PyDict ImpRep TranslatedImpCFDivisor ImpLinkArith ImpLinkEq.
Open Scope Z_scope.

Lemma nth_dadd n D E v : (v < n)%nat -> nthZ (dadd n D E) v = nthZ D v + nthZ E v.
Proof. intros. unfold dadd. now rewrite nthZ_tab. Qed.
Lemma nth_dsub n D E v : (v < n)%nat -> nthZ (dsub n D E) v = nthZ D v - nthZ E v.
Proof. intros. unfold dsub. now rewrite nthZ_tab. Qed.
Lemma nth_dneg n D v : (v < n)%nat -> nthZ (dneg n D) v = - nthZ D v.
Proof. intros. unfold dneg. now rewrite nthZ_tab. Qed.
Lemma nth_dscale n k D v : (v < n)%nat -> nthZ (dscale n k D) v = k * nthZ D v.
Proof. intros. unfold dscale. now rewrite nthZ_tab. Qed.

(* vertex-wise action *)
Theorem C12_vertexwise : forall n D E k v, (v < n)%nat ->
  nthZ (dadd n D E) v = nthZ D v + nthZ E v /\ nthZ (dsub n D E) v = nthZ D v - nthZ E v /\
  nthZ (dneg n D) v = - nthZ D v /\ nthZ (dscale n k D) v = k * nthZ D v.
Proof. intros. repeat split; [now apply nth_dadd|now apply nth_dsub|now apply nth_dneg|now apply nth_dscale]. Qed.
Print Assumptions C12_vertexwise.
(* abelian group laws with the zero divisor, distributivity of scaling *)
Theorem C12_group_laws : forall n D E F k j, length D = n ->
  dadd n D E = dadd n E D /\ dadd n (dadd n D E) F = dadd n D (dadd n E F) /\
  dadd n D (tab n (fun _ => 0)) = D /\ dadd n D (dneg n D) = tab n (fun _ => 0) /\ dsub n D E = dadd n D (dneg n E) /\
  dscale n k (dadd n D E) = dadd n (dscale n k D) (dscale n k E) /\ dscale n (k + j) D = dadd n (dscale n k D) (dscale n j D) /\
  dscale n 1 D = D /\ dscale n (k * j) D = dscale n k (dscale n j D).
Proof. intros n D E F k j HL.
  repeat split; (apply list_eq_nthZ; [unfold dadd, dsub, dneg, dscale; rewrite ?tab_length; auto|
    intros v Hv; assert (Hvn : (v < n)%nat) by (revert Hv; unfold dadd, dsub, dneg, dscale; rewrite ?tab_length; auto);
    repeat (rewrite ?nth_dadd, ?nth_dsub, ?nth_dneg, ?nth_dscale, ?nthZ_tab by exact Hvn); lia]). Qed.
Print Assumptions C12_group_laws.
(* total degree is additive *)
Theorem C12_degree_additive : forall g D E k,
  degD g (dadd (nv g) D E) = degD g D + degD g E /\ degD g (dsub (nv g) D E) = degD g D - degD g E /\
  degD g (dneg (nv g) D) = - degD g D /\ degD g (dscale (nv g) k D) = k * degD g D.
Proof. intros g D E k. unfold degD, deg. rewrite <- zsum_add, <- zsum_sub, <- zsum_opp, <- zsum_scale.
  repeat split; apply zsum_ext; intros v Hv; apply in_Vg in Hv; [now apply nth_dadd|now apply nth_dsub|now apply nth_dneg|now apply nth_dscale]. Qed.
Print Assumptions C12_degree_additive.
(* chip(G, v) is the unit at v; unknown vertices are refused; operands on different vertex sets are refused *)
Theorem C12_chip_and_refusals : forall n v,
  ((v < n)%nat -> exists c, chip_at n v = Ok c /\ forall w, (w < n)%nat -> nthZ c w = if Nat.eqb w v then 1 else 0) /\
  ((n <= v)%nat -> chip_at n v = Err) /\ (forall n2 D E, n <> n2 -> d_add n n2 D E = Err /\ d_sub n n2 D E = Err).
Proof. intros n v. repeat split.
  - intros Hv. unfold chip_at. assert (E : Nat.ltb v n = true) by now apply Nat.ltb_lt. rewrite E. eexists; split; [reflexivity|]. intros w Hw. now rewrite nthZ_tab.
  - intros Hv. unfold chip_at. assert (E : Nat.ltb v n = false) by now apply Nat.ltb_ge. now rewrite E.
  - unfold d_add. apply Nat.eqb_neq in H. now rewrite H.
  - unfold d_sub. apply Nat.eqb_neq in H. now rewrite H. Qed.
Print Assumptions C12_chip_and_refusals.
(* equality: same chip counts and same multigraph (vertices and multiplicities) *)
Theorem C12_eq_spec : forall g1 D g2 E, d_eqb g1 D g2 E = true <->
  (nv g1 = nv g2 /\ (forall v w, (v < nv g1)%nat -> (w < nv g1)%nat -> mult g1 v w = mult g2 v w)) /\ (forall v, (v < nv g1)%nat -> nthZ D v = nthZ E v).
Proof. intros. unfold d_eqb, graph_eqb. rewrite !andb_true_iff, Nat.eqb_eq, div_eqb_spec, forallb_forall. split.
  - intros [[Hn H] HD]. repeat split; auto. intros v w Hv Hw. specialize (H v (proj2 (in_Vg g1 v) Hv)). rewrite forallb_forall in H. apply Z.eqb_eq. apply H. now apply in_Vg.
  - intros [[Hn H] HD]. repeat split; auto. intros v Hv. apply forallb_forall. intros w Hw. apply Z.eqb_eq. apply H; now apply in_Vg. Qed.
Print Assumptions C12_eq_spec.

(* ---- the constructor and the operators built on it, translated from /repo's CURRENT source by tools/translate_imp.py (TranslatedImpCFDivisor.v) ---- *)
(* CFDivisor(graph, pairs): accepted exactly when no name is listed twice and every listed name is a vertex; the new object's dictionary then holds the listed chips and
   0 elsewhere, and its total_degree is the sum of the listed chips - in whatever order Python iterates over the vertex set (so) *)
Theorem C12_source_constructor : forall g gg vs so L, rep_graph gg g -> rep_vset (nv g) vs -> NoDup vs -> (forall l, Permutation.Permutation (so l) l) ->
  match CFDivisor___init__ so vs gg L with
  | PyOk (dd, t) => ctor_ok g L = true /\ rep_div (nv g) dd (tab (nv g) (fun v => d_get v 0 L)) /\ t = zsum snd L
  | PyExn _ => ctor_ok g L = false end.
Proof. intros g gg vs so L Hg Hvs Hnd Hso. apply ctor_refines; assumption. Qed.
Print Assumptions C12_source_constructor.
(* get_total_degree (translated from the CURRENT source) returns the stored total; on every object the constructor accepts that is the degree of the divisor the object represents *)
Theorem C12_source_total_degree : forall g gg vs so L, rep_graph gg g -> rep_vset (nv g) vs -> NoDup vs -> (forall l, Permutation.Permutation (so l) l) ->
  match CFDivisor___init__ so vs gg L with
  | PyOk (dd, t) => CFDivisor_get_total_degree t = degD g (tab (nv g) (fun v => d_get v 0 L))
  | PyExn _ => True end.
Proof. intros g gg vs so L Hg Hvs Hnd Hso. pose proof (ctor_refines g gg Hg vs Hvs Hnd so Hso L) as H. destruct (CFDivisor___init__ so vs gg L) as [[dd t]|e]; [|exact I].
  destruct H as (Hok & _ & Ht). unfold CFDivisor_get_total_degree. rewrite Ht. unfold ctor_ok in Hok. apply andb_true_iff in Hok. destruct Hok as [H1 H2].
  rewrite (zsum_pairs_as_function (nv g) L (proj1 (nodupb_NoDup _) H1) H2). unfold degD, deg, Vg. apply zsum_ext. intros v Hv. apply in_seq in Hv. rewrite nthZ_tab by (cbn in Hv; lia). reflexivity. Qed.
Print Assumptions C12_source_total_degree.
(* -D and k*D on dictionaries representing D: never refused, a NEW dictionary representing dneg / dscale (vertex-wise, C12_vertexwise), total_degree = -deg D / k*deg D *)
Theorem C12_source_neg_rmul : forall g gg vs so dd D k, rep_graph gg g -> rep_vset (nv g) vs -> NoDup vs -> (forall l, Permutation.Permutation (so l) l) -> rep_div (nv g) dd D ->
  (exists dd', CFDivisor___neg__ dd vs gg so = PyOk (dd', - zsum (nthZ D) (seq 0 (nv g))) /\ rep_div (nv g) dd' (dneg (nv g) D)) /\
  (exists dd', CFDivisor___rmul__ dd vs gg so k = PyOk (dd', k * zsum (nthZ D) (seq 0 (nv g))) /\ rep_div (nv g) dd' (dscale (nv g) k D)).
Proof. intros g gg vs so dd D k Hg Hvs Hnd Hso HR. split; [apply neg_refines; assumption|apply rmul_refines; assumption]. Qed.
Print Assumptions C12_source_neg_rmul.
(* D + E and D - E on dictionaries representing D (on g) and E (on a graph with n2 vertices): refused exactly when the vertex sets differ (Machines.d_add / d_sub: n <> n2),
   otherwise a NEW dictionary representing dadd / dsub and total_degree = deg D +/- deg E *)
Theorem C12_source_add_sub : forall g gg vs so dd D n2 vs2 dd2 E, rep_graph gg g -> rep_vset (nv g) vs -> NoDup vs -> (forall l, Permutation.Permutation (so l) l) ->
  rep_div (nv g) dd D -> rep_vset n2 vs2 -> rep_div n2 dd2 E ->
  (if Nat.eqb (nv g) n2 then exists dd', CFDivisor___add__ vs dd gg so vs2 dd2 = PyOk (dd', zsum (nthZ D) (seq 0 (nv g)) + zsum (nthZ E) (seq 0 (nv g))) /\ rep_div (nv g) dd' (dadd (nv g) D E)
   else CFDivisor___add__ vs dd gg so vs2 dd2 = PyExn tt) /\
  (if Nat.eqb (nv g) n2 then exists dd', CFDivisor___sub__ vs dd gg so vs2 dd2 = PyOk (dd', zsum (nthZ D) (seq 0 (nv g)) - zsum (nthZ E) (seq 0 (nv g))) /\ rep_div (nv g) dd' (dsub (nv g) D E)
   else CFDivisor___sub__ vs dd gg so vs2 dd2 = PyExn tt) /\
  d_add (nv g) n2 D E = (if Nat.eqb (nv g) n2 then Ok (dadd (nv g) D E) else Err).
Proof. intros g gg vs so dd D n2 vs2 dd2 E Hg Hvs Hnd Hso HR H2 HR2. split; [apply add_refines; assumption|]. split; [apply sub_refines; assumption|reflexivity]. Qed.
Print Assumptions C12_source_add_sub.
(* D == X as translated from the CURRENT source: False when X is not a CFDivisor; for two divisors - each on dictionaries representing its own graph - exactly the model's
   d_eqb (C12_eq_spec: same vertices, same multiplicities, same chips), in whatever order the vertex set is iterated; no KeyError can escape *)
Theorem C12_source_eq : forall g1 g2 gg1 gg2 vs1 vs2 dd1 dd2 D E so, wfb g1 = true -> wfb g2 = true -> rep_graph gg1 g1 -> rep_graph gg2 g2 ->
  rep_vset (nv g1) vs1 -> rep_vset (nv g2) vs2 -> rep_div (nv g1) dd1 D -> rep_div (nv g2) dd2 E -> (forall l, Permutation.Permutation (so l) l) ->
  CFDivisor___eq__ dd1 vs1 gg1 so (Some (vs2, gg2, dd2)) = PyOk (d_eqb g1 D g2 E) /\ CFDivisor___eq__ dd1 vs1 gg1 so None = PyOk false.
Proof. intros g1 g2 gg1 gg2 vs1 vs2 dd1 dd2 D E so W1 W2 G1 G2 V1 V2 R1 R2 Hso. split; [|reflexivity].
  destruct (eq_refines g1 g2 W1 W2 gg1 gg2 G1 G2 vs1 vs2 V1 V2 dd1 dd2 D E R1 R2 so Hso) as (b & Hb & Hiff). rewrite Hb. f_equal.
  apply Bool.eq_true_iff_eq. rewrite Hiff, C12_eq_spec. unfold eq_spec. tauto. Qed.
Print Assumptions C12_source_eq.
Example C12_source_nonvacuous : let g := [[0;2;1];[2;0;1];[1;1;0]] in
  CFDivisor___init__ (fun l => rev l) [0;1;2]%nat (dict_of_graph g) [(2%nat, 5); (0%nat, -1)] = PyOk ([(2%nat, 5); (1%nat, 0); (0%nat, -1)], 4) /\
  CFDivisor___init__ (fun l => l) [0;1;2]%nat (dict_of_graph g) [(2%nat, 5); (2%nat, 1)] = PyExn ([(0%nat, 0); (1%nat, 0); (2%nat, 0)], 0) /\
  CFDivisor___init__ (fun l => l) [0;1;2]%nat (dict_of_graph g) [(2%nat, 5); (3%nat, 1)] = PyExn ([(0%nat, 0); (1%nat, 0); (2%nat, 5)], 5) /\
  CFDivisor___rmul__ (dict_of_div [3; 0; -2]) [0;1;2]%nat (dict_of_graph g) (fun l => l) (-2) = PyOk ([(0%nat, -6); (1%nat, 0); (2%nat, 4)], -2) /\
  CFDivisor___add__ [0;1;2]%nat (dict_of_div [3; 0; -2]) (dict_of_graph g) (fun l => rev l) [2;0;1]%nat (dict_of_div [1; 1; 1]) = PyOk ([(2%nat, -1); (1%nat, 1); (0%nat, 4)], 4) /\
  CFDivisor___sub__ [0;1;2]%nat (dict_of_div [3; 0; -2]) (dict_of_graph g) (fun l => l) [0;1]%nat (dict_of_div [1; 1]) = PyExn tt /\
  CFDivisor___eq__ (dict_of_div [3; 0; -2]) [0;1;2]%nat (dict_of_graph g) (fun l => rev l) (Some ([2;1;0]%nat, dict_of_graph g, dict_of_div [3; 0; -2])) = PyOk true /\
  CFDivisor___eq__ (dict_of_div [3; 0; -2]) [0;1;2]%nat (dict_of_graph g) (fun l => l) (Some ([0;1;2]%nat, dict_of_graph [[0;1;1];[1;0;1];[1;1;0]], dict_of_div [3; 0; -2])) = PyOk false.
Proof. vm_compute. repeat split. Qed.
