(* C12  Divisor arithmetic is the free abelian group on the vertices. *)
From Coq Require Import ZArith List Bool Lia.
Import ListNotations.
From CF Require Import ZSum ListAux Defs Core Machines GraphLink QredLink.
Open Scope Z_scope.

Lemma nth_dadd n D E v : (v < n)%nat -> nthZ (dadd n D E) v = nthZ D v + nthZ E v.
Proof. intros. unfold dadd. now rewrite nthZ_tab. Qed.
Lemma nth_dsub n D E v : (v < n)%nat -> nthZ (dsub n D E) v = nthZ D v - nthZ E v.
Proof. intros. unfold dsub. now rewrite nthZ_tab. Qed.
Lemma nth_dneg n D v : (v < n)%nat -> nthZ (dneg n D) v = - nthZ D v.
Proof. intros. unfold dneg. now rewrite nthZ_tab. Qed.
Lemma nth_dscale n k D v : (v < n)%nat -> nthZ (dscale n k D) v = k * nthZ D v.
Proof. intros. unfold dscale. now rewrite nthZ_tab. Qed.

(* vertex-wise action *)
Theorem C12_vertexwise : forall n D E k v, (v < n)%nat ->
  nthZ (dadd n D E) v = nthZ D v + nthZ E v /\ nthZ (dsub n D E) v = nthZ D v - nthZ E v /\
  nthZ (dneg n D) v = - nthZ D v /\ nthZ (dscale n k D) v = k * nthZ D v.
Proof. intros. repeat split; [now apply nth_dadd|now apply nth_dsub|now apply nth_dneg|now apply nth_dscale]. Qed.
Print Assumptions C12_vertexwise.
(* abelian group laws with the zero divisor, distributivity of scaling *)
Theorem C12_group_laws : forall n D E F k j, length D = n ->
  dadd n D E = dadd n E D /\ dadd n (dadd n D E) F = dadd n D (dadd n E F) /\
  dadd n D (tab n (fun _ => 0)) = D /\ dadd n D (dneg n D) = tab n (fun _ => 0) /\ dsub n D E = dadd n D (dneg n E) /\
  dscale n k (dadd n D E) = dadd n (dscale n k D) (dscale n k E) /\ dscale n (k + j) D = dadd n (dscale n k D) (dscale n j D) /\
  dscale n 1 D = D /\ dscale n (k * j) D = dscale n k (dscale n j D).
Proof. intros n D E F k j HL.
  repeat split; (apply list_eq_nthZ; [unfold dadd, dsub, dneg, dscale; rewrite ?tab_length; auto|
    intros v Hv; assert (Hvn : (v < n)%nat) by (revert Hv; unfold dadd, dsub, dneg, dscale; rewrite ?tab_length; auto);
    repeat (rewrite ?nth_dadd, ?nth_dsub, ?nth_dneg, ?nth_dscale, ?nthZ_tab by exact Hvn); lia]). Qed.
Print Assumptions C12_group_laws.
(* total degree is additive *)
Theorem C12_degree_additive : forall g D E k,
  degD g (dadd (nv g) D E) = degD g D + degD g E /\ degD g (dsub (nv g) D E) = degD g D - degD g E /\
  degD g (dneg (nv g) D) = - degD g D /\ degD g (dscale (nv g) k D) = k * degD g D.
Proof. intros g D E k. unfold degD, deg. rewrite <- zsum_add, <- zsum_sub, <- zsum_opp, <- zsum_scale.
  repeat split; apply zsum_ext; intros v Hv; apply in_Vg in Hv; [now apply nth_dadd|now apply nth_dsub|now apply nth_dneg|now apply nth_dscale]. Qed.
Print Assumptions C12_degree_additive.
(* chip(G, v) is the unit at v; unknown vertices are refused; operands on different vertex sets are refused *)
Theorem C12_chip_and_refusals : forall n v,
  ((v < n)%nat -> exists c, chip_at n v = Ok c /\ forall w, (w < n)%nat -> nthZ c w = if Nat.eqb w v then 1 else 0) /\
  ((n <= v)%nat -> chip_at n v = Err) /\ (forall n2 D E, n <> n2 -> d_add n n2 D E = Err /\ d_sub n n2 D E = Err).
Proof. intros n v. repeat split.
  - intros Hv. unfold chip_at. assert (E : Nat.ltb v n = true) by now apply Nat.ltb_lt. rewrite E. eexists; split; [reflexivity|]. intros w Hw. now rewrite nthZ_tab.
  - intros Hv. unfold chip_at. assert (E : Nat.ltb v n = false) by now apply Nat.ltb_ge. now rewrite E.
  - unfold d_add. apply Nat.eqb_neq in H. now rewrite H.
  - unfold d_sub. apply Nat.eqb_neq in H. now rewrite H. Qed.
Print Assumptions C12_chip_and_refusals.
(* equality: same chip counts and same multigraph (vertices and multiplicities) *)
Theorem C12_eq_spec : forall g1 D g2 E, d_eqb g1 D g2 E = true <->
  (nv g1 = nv g2 /\ (forall v w, (v < nv g1)%nat -> (w < nv g1)%nat -> mult g1 v w = mult g2 v w)) /\ (forall v, (v < nv g1)%nat -> nthZ D v = nthZ E v).
Proof. intros. unfold d_eqb, graph_eqb. rewrite !andb_true_iff, Nat.eqb_eq, div_eqb_spec, forallb_forall. split.
  - intros [[Hn H] HD]. repeat split; auto. intros v w Hv Hw. specialize (H v (proj2 (in_Vg g1 v) Hv)). rewrite forallb_forall in H. apply Z.eqb_eq. apply H. now apply in_Vg.
  - intros [[Hn H] HD]. repeat split; auto. intros v Hv. apply forallb_forall. intros w Hw. apply Z.eqb_eq. apply H; now apply in_Vg. Qed.
Print Assumptions C12_eq_spec.
