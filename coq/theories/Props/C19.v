(* C19  Published closed forms and bounds agree with the true gonality.
   General theorems: gon(K_n) = n - 1 for every n >= 2; for connected simple graphs n - 1 and n - (size of any independent set) chips
   suffice; meaning of the independence number. Finite facts about the five generated solids and the published table are re-proved on every
   run against Generated.v, which the check dumps from the live generators. The lower bounds 'minimum degree' and 'bramble order - 1' rest on
   treewidth <= gonality (van Dobben de Bruyn - Gijswijt), out of reach here: bounded only. The multipartite closed form is refuted (finding). *)
From Coq Require Import ZArith List Bool Lia.
Import ListNotations.
From CF Require Import ZSum ListAux Defs Core Machines Config BoundsLink Generated PyLib Translated TranslatedLink SmallGraphs.
Open Scope Z_scope.

(* complete graphs: is_gonality (n - 1), all n >= 2 *)
Theorem C19_complete_graph_gonality : forall k, is_gonality (Vg (Kn k)) (mult (Kn k)) (S k) /\ nv (Kn k) = S (S k) /\ wfb (Kn k) = true.
Proof. intros k. split; [apply Kn_gonality|]. split; [apply Kn_nv|apply Kn_wf]. Qed.
Print Assumptions C19_complete_graph_gonality.
(* tie to the source text (Translated.v is regenerated from /repo's current source on every run): the closed form returned by
   complete_graph_gonality is refused below 1 and IS the gonality of K_n for every n >= 2; complete_multipartite_gonality is the formula
   refuted below *)
Theorem C19_source_complete_graph_gonality : (forall n, n < 1 -> Translated.complete_graph_gonality n = None) /\
  forall k, exists gon, Translated.complete_graph_gonality (Z.of_nat (nv (Kn k))) = Some (Z.of_nat gon) /\ is_gonality (Vg (Kn k)) (mult (Kn k)) gon.
Proof. split; [exact complete_graph_gonality_refuses|exact complete_graph_gonality_exact]. Qed.
Print Assumptions C19_source_complete_graph_gonality.
Theorem C19_source_multipartite_formula : forall parts, Forall (fun x => 0 <= x) parts ->
  Translated.complete_multipartite_gonality parts = multipartite_formula_as_implemented (map Z.to_nat parts).
Proof. exact complete_multipartite_gonality_eq. Qed.
Print Assumptions C19_source_multipartite_formula.
(* upper bounds for simple graphs without isolated vertices (in particular connected simple graphs on >= 2 vertices) *)
Theorem C19_n_minus_independent_set : forall g, wfb g = true -> forall I : nat -> bool, simple g -> no_isolated g -> independent g I ->
  exists D, effective (Vg g) D /\ deg (Vg g) D = Z.of_nat (nv g) - Z.of_nat (length (filter I (Vg g))) /\ rank_ge (Vg g) (mult g) D 1.
Proof. exact gonality_le_n_minus_independent. Qed.
Print Assumptions C19_n_minus_independent_set.
Theorem C19_n_minus_1 : forall g, wfb g = true -> simple g -> no_isolated g -> (0 < nv g)%nat ->
  exists D, effective (Vg g) D /\ deg (Vg g) D = Z.of_nat (nv g) - 1 /\ rank_ge (Vg g) (mult g) D 1.
Proof. exact gonality_le_n_minus_1. Qed.
Print Assumptions C19_n_minus_1.
Theorem C19_independence_number : forall g,
  (exists S, In S (sublists (Vg g)) /\ is_independent g S = true /\ length S = indep_number g) /\
  (forall S, In S (sublists (Vg g)) -> is_independent g S = true -> (length S <= indep_number g)%nat).
Proof. exact indep_number_spec. Qed.
Print Assumptions C19_independence_number.

(* ---- the generated solids (Generated.v is rewritten from /repo on every run) ---- *)
Definition nedges2 (g : graph) : Z := zsum (fun v => valg g v) (Vg g).
Definition regular (g : graph) (d : Z) : bool := forallb (fun v => valg g v =? d) (Vg g).
Definition simple_b (g : graph) : bool := forallb (fun v => forallb (fun w => mult g v w <=? 1) (Vg g)) (Vg g).
Definition solid_ok (g : graph) (nvx : nat) (ne d : Z) : bool :=
  wfb g && connected_b g && simple_b g && Nat.eqb (nv g) nvx && (nedges2 g =? 2 * ne) && regular g d.
Theorem C19_solids_structure :
  solid_ok gen_tetrahedron 4 6 3 && solid_ok gen_cube 8 12 3 && solid_ok gen_octahedron 6 12 4 && solid_ok gen_dodecahedron 20 30 3 && solid_ok gen_icosahedron 12 30 5 = true.
Proof. vm_compute. reflexivity. Qed.
Print Assumptions C19_solids_structure.
Definition counts_of (t : Z * Z * Z * Z * Z) : Z * Z := (snd (fst t), snd t).
(* the published independence numbers of the octahedron (2) and the icosahedron (3), and what independence_number() returns on the generated
   graphs, are the size of a largest independent set of the generated graph (all 2^6 / 2^12 subsets, kernel computation) *)
Theorem C19_published_independence_numbers :
  alpha_octahedron = (indep_number gen_octahedron, indep_number gen_octahedron) /\ alpha_icosahedron = (indep_number gen_icosahedron, indep_number gen_icosahedron).
Proof. split; vm_compute; reflexivity. Qed.
Print Assumptions C19_published_independence_numbers.
Theorem C19_table_counts : counts_of table_tetrahedron = (4, 6) /\ counts_of table_cube = (8, 12) /\ counts_of table_octahedron = (6, 12) /\
  counts_of table_dodecahedron = (20, 30) /\ counts_of table_icosahedron = (12, 30).
Proof. repeat split; vm_compute; reflexivity. Qed.
Print Assumptions C19_table_counts.
(* exact table entries = gonality of the generated graph, computed by the verified search (C04) *)
Definition exact_of (t : Z * Z * Z * Z * Z) : Z := fst (fst (fst (fst t))).
Theorem C19_table_exact_entries :
  compute_gonality 300 gen_tetrahedron 4 false = Done (exact_of table_tetrahedron, [[3;0;0;0]]) /\
  fst_res (compute_gonality 300 gen_octahedron 6 false) = Some (exact_of table_octahedron) /\
  fst_res (compute_gonality 300 gen_cube 8 false) = Some (exact_of table_cube).
Proof. repeat split; vm_compute; reflexivity. Qed.
Print Assumptions C19_table_exact_entries.

(* ---- bounded: minimum degree and (bramble order - 1) are lower bounds on the gonality for all connected simple graphs on <= 4 vertices ---- *)
Definition simple4 : list graph := flat_map (fun a => flat_map (fun b => flat_map (fun c => flat_map (fun d => flat_map (fun e => map (fun f =>
  [[0;a;b;c];[a;0;d;e];[b;d;0;f];[c;e;f;0]]) [0;1]) [0;1]) [0;1]) [0;1]) [0;1]) [0;1].
Definition simple3 : list graph := flat_map (fun a => flat_map (fun b => map (fun c => [[0;a;b];[a;0;c];[b;c;0]]) [0;1]) [0;1]) [0;1].
Definition bramble_minus_1 (g : graph) : Z := if is_complete_simple g then Z.of_nat (nv g) - 1 else min_degree g.
Theorem C19_min_degree_and_bramble_bounded : forallb (fun g => if connected_b g then
    match compute_gonality 300 g (nv g) false with Done (k, _) => (min_degree g <=? k) && (bramble_minus_1 g <=? k) && (k <=? Z.of_nat (nv g) - Z.of_nat (indep_number g)) | OutOfFuel => false end
  else true) (simple3 ++ simple4) = true.
Proof. vm_compute. reflexivity. Qed.
Print Assumptions C19_min_degree_and_bramble_bounded.
(* the three theorem-backed bounds for EVERY connected simple graph on at most 5 vertices: Link/SmallGraphs.v shows that every well-formed simple graph
   on n <= 5 vertices occurs in the enumeration simple_n n (one bit per vertex pair: 2, 8, 64, 1024 graphs for n = 2..5), and the kernel computes the gonality of each; the one-vertex graph is excluded:
   the library reports only a trivial bound for it, and n - alpha = 0 is not an upper bound there *)
Definition bounds_ok (g : graph) : bool := if connected_b g then
    match compute_gonality 300 g (nv g) false with Done (k, _) => (min_degree g <=? k) && (bramble_minus_1 g <=? k) && (k <=? Z.of_nat (nv g) - Z.of_nat (indep_number g)) | OutOfFuel => false end
  else true.
Lemma bounds_ok_all : forall n, (2 <= n <= 5)%nat -> forallb bounds_ok (simple_n n) = true.
Proof. intros n H. destruct n as [|[|[|[|[|[|k]]]]]]; try lia; vm_compute; reflexivity. Qed.
Theorem C19_bounds_every_simple_graph_up_to_5_vertices : forall g, wfb g = true -> simple g -> (2 <= nv g <= 5)%nat -> connected_b g = true ->
  exists k S, compute_gonality 300 g (nv g) false = Done (k, S) /\ min_degree g <= k /\ bramble_minus_1 g <= k /\ k <= Z.of_nat (nv g) - Z.of_nat (indep_number g).
Proof. intros g Hwf Hs Hn Hc. pose proof (small_graphs_complete g Hwf Hs ltac:(lia)) as Hin.
  pose proof (bounds_ok_all (nv g) Hn) as H. rewrite forallb_forall in H. specialize (H g Hin). unfold bounds_ok in H. rewrite Hc in H.
  destruct (compute_gonality 300 g (nv g) false) as [[k S]|]; [|discriminate]. exists k, S. split; [reflexivity|].
  apply andb_true_iff in H. destruct H as [H H3]. apply andb_true_iff in H. destruct H as [H1 H2]. apply Z.leb_le in H1, H2, H3. auto. Qed.
Print Assumptions C19_bounds_every_simple_graph_up_to_5_vertices.

(* ---- recorded finding d7a: the multipartite closed form uses the smallest part ---- *)
Theorem complete_multipartite_refuted : exists parts, multipartite_formula_as_implemented parts = 3 /\
  fst_res (compute_gonality 300 (complete_multipartite parts) 4 false) = Some 1.
Proof. exists [3;1]%nat. split; vm_compute; reflexivity. Qed.
Print Assumptions complete_multipartite_refuted.
