(* GENERATED on every run by tools/translate_imp.py from the current source in /repo. Do not edit. *)
From Coq Require Import ZArith List Bool Arith.
Import ListNotations.
From CF Require Import PyDict TranslatedImpCFDivisor TranslatedImpCFGraph.
Open Scope Z_scope.

(* chipfiring/CFOrientation.py :: CFOrientation.set_orientation   reads ['self_orientation', 'self_graph_graph', 'self_out_degree', 'self_in_degree', 'self_is_full', 'self_is_full_checked'], writes ['self_out_degree', 'self_in_degree', 'self_orientation', 'self_is_full', 'self_is_full_checked'], may raise *)
Definition CFOrientation_set_orientation (self_orientation : dictD) (self_graph_graph : dictD) (self_out_degree : dictZ) (self_in_degree : dictZ) (self_is_full : bool) (self_is_full_checked : bool) (source : nat) (sink : nat) (state : Z) : pyres (dictZ * dictZ * dictD * bool * bool) (dictZ * dictZ * dictD * bool * bool) :=
  match d_find source self_orientation with None => PyExn (self_out_degree, self_in_degree, self_orientation, self_is_full, self_is_full_checked) | Some t1_ =>
  match d_find sink t1_ with None => PyExn (self_out_degree, self_in_degree, self_orientation, self_is_full, self_is_full_checked) | Some t2_ =>
  let old_state := t2_ in
  match d_find source self_graph_graph with None => PyExn (self_out_degree, self_in_degree, self_orientation, self_is_full, self_is_full_checked) | Some t3_ =>
  match d_find sink t3_ with None => PyExn (self_out_degree, self_in_degree, self_orientation, self_is_full, self_is_full_checked) | Some t4_ =>
  let valence := t4_ in
  match (if (old_state =? 1) then
  match d_find source self_out_degree with None => PyExn (self_out_degree, self_in_degree, self_orientation, self_is_full, self_is_full_checked) | Some t5_ =>
  let self_out_degree := d_set source (t5_ - valence) self_out_degree in
  match d_find sink self_in_degree with None => PyExn (self_out_degree, self_in_degree, self_orientation, self_is_full, self_is_full_checked) | Some t6_ =>
  let self_in_degree := d_set sink (t6_ - valence) self_in_degree in
  PyOk (self_out_degree, self_in_degree) end end
  else
  if (old_state =? 2) then
  match d_find source self_in_degree with None => PyExn (self_out_degree, self_in_degree, self_orientation, self_is_full, self_is_full_checked) | Some t7_ =>
  let self_in_degree := d_set source (t7_ - valence) self_in_degree in
  match d_find sink self_out_degree with None => PyExn (self_out_degree, self_in_degree, self_orientation, self_is_full, self_is_full_checked) | Some t8_ =>
  let self_out_degree := d_set sink (t8_ - valence) self_out_degree in
  PyOk (self_out_degree, self_in_degree) end end
  else
  PyOk (self_out_degree, self_in_degree)) with PyExn e_ => PyExn e_ | PyOk (self_out_degree, self_in_degree) =>
  match d_find source self_orientation with None => PyExn (self_out_degree, self_in_degree, self_orientation, self_is_full, self_is_full_checked) | Some t9_ =>
  let self_orientation := d_set source (d_set sink state t9_) self_orientation in
  match d_find sink self_orientation with None => PyExn (self_out_degree, self_in_degree, self_orientation, self_is_full, self_is_full_checked) | Some t10_ =>
  let self_orientation := d_set sink (d_set source (if (state =? 0) then 0 else (if (state =? 1) then 2 else 1)) t10_) self_orientation in
  match (if (state =? 1) then
  match d_find source self_out_degree with None => PyExn (self_out_degree, self_in_degree, self_orientation, self_is_full, self_is_full_checked) | Some t11_ =>
  let self_out_degree := d_set source (t11_ + valence) self_out_degree in
  match d_find sink self_in_degree with None => PyExn (self_out_degree, self_in_degree, self_orientation, self_is_full, self_is_full_checked) | Some t12_ =>
  let self_in_degree := d_set sink (t12_ + valence) self_in_degree in
  PyOk (self_out_degree, self_in_degree) end end
  else
  if (state =? 2) then
  match d_find source self_in_degree with None => PyExn (self_out_degree, self_in_degree, self_orientation, self_is_full, self_is_full_checked) | Some t13_ =>
  let self_in_degree := d_set source (t13_ + valence) self_in_degree in
  match d_find sink self_out_degree with None => PyExn (self_out_degree, self_in_degree, self_orientation, self_is_full, self_is_full_checked) | Some t14_ =>
  let self_out_degree := d_set sink (t14_ + valence) self_out_degree in
  PyOk (self_out_degree, self_in_degree) end end
  else
  PyOk (self_out_degree, self_in_degree)) with PyExn e_ => PyExn e_ | PyOk (self_out_degree, self_in_degree) =>
  let '(self_is_full, self_is_full_checked) := (if (state =? 0) then
  let self_is_full := false in
  let self_is_full_checked := true in
  (self_is_full, self_is_full_checked)
  else
  (self_is_full, self_is_full_checked)) in
  if ((old_state =? 0) && (negb (state =? 0))) then
  let self_is_full_checked := false in
  PyOk (self_out_degree, self_in_degree, self_orientation, self_is_full, self_is_full_checked)
  else
  PyOk (self_out_degree, self_in_degree, self_orientation, self_is_full, self_is_full_checked) end end end end end end end end.

(* chipfiring/CFOrientation.py :: CFOrientation.check_fullness   reads ['self_is_full', 'self_is_full_checked', 'self_graph_vertices', 'self_graph_graph', 'self_orientation'], writes ['self_is_full', 'self_is_full_checked'], may raise *)
Definition CFOrientation_check_fullness (self_is_full : bool) (self_is_full_checked : bool) (self_graph_vertices : list nat) (self_graph_graph : dictD) (self_orientation : dictD) (set_order : list nat -> list nat) : pyres (bool * bool) (bool * (bool * bool)) :=
  match fold_left (fun acc_ v1 => match acc_ with PyExn e_ => PyExn e_ | PyOk (Some r_, (self_is_full, self_is_full_checked)) => PyOk (Some r_, (self_is_full, self_is_full_checked)) | PyOk (None, (self_is_full, self_is_full_checked)) => 
  match d_find v1 self_graph_graph with None => PyExn (self_is_full, self_is_full_checked) | Some t1_ =>
  match fold_left (fun acc_ v2 => match acc_ with PyExn e_ => PyExn e_ | PyOk (Some r_, (self_is_full, self_is_full_checked)) => PyOk (Some r_, (self_is_full, self_is_full_checked)) | PyOk (None, (self_is_full, self_is_full_checked)) => 
  if (Nat.ltb v1 v2) then
  match d_find v1 self_orientation with None => PyExn (self_is_full, self_is_full_checked) | Some t2_ =>
  match d_find v2 t2_ with None => PyExn (self_is_full, self_is_full_checked) | Some t3_ =>
  if (t3_ =? 0) then
  let self_is_full := false in
  let self_is_full_checked := true in
  PyOk (Some (false), (self_is_full, self_is_full_checked))
  else
  PyOk (None, (self_is_full, self_is_full_checked)) end end
  else
  PyOk (None, (self_is_full, self_is_full_checked)) end) (d_keys t1_) (PyOk (None, (self_is_full, self_is_full_checked))) with PyExn e_ => PyExn e_ | PyOk (Some r_, (self_is_full, self_is_full_checked)) => PyOk (Some r_, (self_is_full, self_is_full_checked)) | PyOk (None, (self_is_full, self_is_full_checked)) =>
  PyOk (None, (self_is_full, self_is_full_checked)) end end end) (set_order self_graph_vertices) (PyOk (None, (self_is_full, self_is_full_checked))) with PyExn e_ => PyExn e_ | PyOk (Some r_, (self_is_full, self_is_full_checked)) => PyOk (r_, (self_is_full, self_is_full_checked)) | PyOk (None, (self_is_full, self_is_full_checked)) =>
  let self_is_full := true in
  let self_is_full_checked := true in
  PyOk (true, (self_is_full, self_is_full_checked)) end.

(* chipfiring/CFOrientation.py :: CFOrientation.get_in_degree   reads ['self_graph_graph', 'self_in_degree'], writes [], may raise *)
Definition CFOrientation_get_in_degree (self_graph_graph : dictD) (self_in_degree : dictZ) (vertex_name : nat) : pyres (unit) Z :=
  let vertex := vertex_name in
  if (negb (d_mem vertex self_graph_graph)) then
  PyExn tt
  else
  match d_find vertex self_in_degree with None => PyExn tt | Some t1_ =>
  PyOk (t1_) end.

(* chipfiring/CFOrientation.py :: CFOrientation.get_out_degree   reads ['self_graph_graph', 'self_out_degree'], writes [], may raise *)
Definition CFOrientation_get_out_degree (self_graph_graph : dictD) (self_out_degree : dictZ) (vertex_name : nat) : pyres (unit) Z :=
  let vertex := vertex_name in
  if (negb (d_mem vertex self_graph_graph)) then
  PyExn tt
  else
  match d_find vertex self_out_degree with None => PyExn tt | Some t1_ =>
  PyOk (t1_) end.

(* chipfiring/CFOrientation.py :: CFOrientation.get_orientation   reads ['self_graph_graph', 'self_orientation'], writes [], may raise *)
Definition CFOrientation_get_orientation (self_graph_graph : dictD) (self_orientation : dictD) (v1_name : nat) (v2_name : nat) : pyres (unit) (option (nat * nat)) :=
  let v1 := v1_name in
  let v2 := v2_name in
  if ((negb (d_mem v1 self_graph_graph)) || (negb (d_mem v2 self_graph_graph))) then
  PyExn tt
  else
  match d_find v1 self_graph_graph with None => PyExn tt | Some t1_ =>
  if (negb (d_mem v2 t1_)) then
  PyExn tt
  else
  match d_find v1 self_orientation with None => PyExn tt | Some t2_ =>
  match d_find v2 t2_ with None => PyExn tt | Some t3_ =>
  let state := t3_ in
  if (state =? 0) then
  PyOk (None)
  else
  if (state =? 1) then
  PyOk (Some (v1_name, v2_name))
  else
  PyOk (Some (v2_name, v1_name)) end end end.

(* chipfiring/CFOrientation.py :: CFOrientation.is_source   reads ['self_graph_graph', 'self_orientation'], writes [], may raise *)
Definition CFOrientation_is_source (self_graph_graph : dictD) (self_orientation : dictD) (vertex_name : nat) (neighbor_name : nat) : pyres (unit) (option bool) :=
  let vertex := vertex_name in
  let neighbor := neighbor_name in
  if ((negb (d_mem vertex self_graph_graph)) || (negb (d_mem neighbor self_graph_graph))) then
  PyExn tt
  else
  match d_find vertex self_graph_graph with None => PyExn tt | Some t1_ =>
  if (negb (d_mem neighbor t1_)) then
  PyExn tt
  else
  match d_find vertex self_orientation with None => PyExn tt | Some t2_ =>
  match d_find neighbor t2_ with None => PyExn tt | Some t3_ =>
  let state := t3_ in
  if (state =? 0) then
  PyOk (None)
  else
  PyOk (Some (state =? 1)) end end end.

(* chipfiring/CFOrientation.py :: CFOrientation.is_sink   reads ['self_graph_graph', 'self_orientation'], writes [], may raise *)
Definition CFOrientation_is_sink (self_graph_graph : dictD) (self_orientation : dictD) (vertex_name : nat) (neighbor_name : nat) : pyres (unit) (option bool) :=
  let vertex := vertex_name in
  let neighbor := neighbor_name in
  if ((negb (d_mem vertex self_graph_graph)) || (negb (d_mem neighbor self_graph_graph))) then
  PyExn tt
  else
  match d_find vertex self_graph_graph with None => PyExn tt | Some t1_ =>
  if (negb (d_mem neighbor t1_)) then
  PyExn tt
  else
  match d_find vertex self_orientation with None => PyExn tt | Some t2_ =>
  match d_find neighbor t2_ with None => PyExn tt | Some t3_ =>
  let state := t3_ in
  if (state =? 0) then
  PyOk (None)
  else
  PyOk (Some (state =? 2)) end end end.

(* chipfiring/CFOrientation.py :: CFOrientation.divisor   reads ['self_is_full_checked', 'self_is_full', 'self_graph_vertices', 'self_graph_graph', 'self_orientation', 'self_in_degree'], writes ['self_is_full', 'self_is_full_checked'], may raise *)
Definition CFOrientation_divisor (self_is_full_checked : bool) (self_is_full : bool) (self_graph_vertices : list nat) (self_graph_graph : dictD) (self_orientation : dictD) (self_in_degree : dictZ) (set_order : list nat -> list nat) : pyres (bool * bool) ((dictZ * Z) * (bool * bool)) :=
  match (if (negb self_is_full_checked) then
  match CFOrientation_check_fullness self_is_full self_is_full_checked self_graph_vertices self_graph_graph self_orientation set_order with PyExn (self_is_full, self_is_full_checked) => PyExn (self_is_full, self_is_full_checked) | PyOk (_, (self_is_full, self_is_full_checked)) =>
  PyOk (self_is_full, self_is_full_checked) end
  else
  PyOk (self_is_full, self_is_full_checked)) with PyExn e_ => PyExn e_ | PyOk (self_is_full, self_is_full_checked) =>
  if (negb self_is_full) then
  PyExn (self_is_full, self_is_full_checked)
  else
  let divisor_degrees := (@nil (nat * Z)) in
  match fold_left (fun acc_ vertex => match acc_ with PyExn e_ => PyExn e_ | PyOk divisor_degrees => 
  match d_find vertex self_in_degree with None => PyExn (self_is_full, self_is_full_checked) | Some t1_ =>
  let degree := (t1_ - 1) in
  let divisor_degrees := divisor_degrees ++ [(vertex, degree)] in
  PyOk divisor_degrees end end) (set_order self_graph_vertices) (PyOk divisor_degrees) with PyExn e_ => PyExn e_ | PyOk divisor_degrees =>
  match CFDivisor___init__ set_order self_graph_vertices self_graph_graph divisor_degrees with PyExn _ => PyExn (self_is_full, self_is_full_checked) | PyOk new_ => PyOk (new_, (self_is_full, self_is_full_checked)) end end end.

(* chipfiring/CFOrientation.py :: CFOrientation.canonical_divisor   reads ['self_graph_vertices', 'self_graph_vertex_total_valence', 'self_graph_graph'], writes [], may raise *)
Definition CFOrientation_canonical_divisor (self_graph_vertices : list nat) (self_graph_vertex_total_valence : dictZ) (self_graph_graph : dictD) (set_order : list nat -> list nat) : pyres (unit) (dictZ * Z) :=
  let canonical_degrees := (@nil (nat * Z)) in
  match fold_left (fun acc_ vertex => match acc_ with PyExn e_ => PyExn e_ | PyOk canonical_degrees => 
  match CFGraph_get_valence self_graph_vertex_total_valence vertex with PyExn _ => PyExn tt | PyOk t1_ =>
  let valence := t1_ in
  let degree := (valence - 2) in
  let canonical_degrees := canonical_degrees ++ [(vertex, degree)] in
  PyOk canonical_degrees end end) (set_order self_graph_vertices) (PyOk canonical_degrees) with PyExn e_ => PyExn e_ | PyOk canonical_degrees =>
  match CFDivisor___init__ set_order self_graph_vertices self_graph_graph canonical_degrees with PyExn _ => PyExn tt | PyOk new_ => PyOk (new_) end end.
