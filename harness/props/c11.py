"""C11 Orientation counters stay consistent; orientation divisors obey K identities."""
import random, common, oracle as O
RULE = ("multigraphs x constructor lists (valid, partial, full, acyclic-from-a-vertex-order, invalid: non-edge / edge listed twice) x histories of 0..25 set_orientation calls with all three "
        "states in both endpoint orders (some on non-edges), interleaved with check_fullness / divisor / reverse / get_orientation; non-trivial = distinct case with >= 2 edges and >= 2 accepted calls")
EXPLANATION = ("after every call: outcome, every in/out degree, the direction of every edge read from both endpoints are compared with the model state machine (counter invariant = theorem C11_history); "
               "for full orientations deg = g-1 and D(O)+D(rev O)=K are checked on the implementation's own objects, acyclic orientations must be unwinnable (theorem C11_acyclic_unwinnable)")
def gen(rng, tier):
    out = []
    for _ in range(250 if tier == "quick" else 6000):
        G, fam = common.random_connected_graph(rng, 2, 6)
        r0 = rng.random()
        if r0 < 0.05: G = common.mk_graph(rng.randint(1, 3), [], rng)               # no edge at all: every orientation is (vacuously) full
        elif r0 < 0.12: G = common.add_isolated(rng, G)
        n = G["n"]; E = [(a, b) for a, b, _ in G["edges"]]
        mode = rng.choice(["empty", "partial", "full", "acyclic", "acyclic", "invalid"])
        init = []
        if mode in ("partial", "full"):
            for a, b in E:
                if mode == "full" or rng.random() < 0.5: init.append([a, b] if rng.random() < 0.5 else [b, a])
        elif mode == "acyclic":
            pos = list(range(n)); rng.shuffle(pos); init = [[a, b] if pos[a] < pos[b] else [b, a] for a, b in E]
        elif mode == "invalid":
            init = [[a, b] for a, b in E[:2]]
            k = rng.choice(["dup", "dup_rev", "nonedge", "unknown"])
            if k == "dup" and init: init.append(list(init[0]))
            elif k == "dup_rev" and init: init.append(init[0][::-1])
            elif k == "unknown": init.append([0, n + 1])
            else:
                non = [(a, b) for a in range(n) for b in range(n) if a != b and (min(a, b), max(a, b)) not in E]
                init.append(list(rng.choice(non)) if non else [0, 0])
            rng.shuffle(init)
        ops = []
        for _ in range(rng.randint(0, 25)):
            r = rng.random()
            if r < 0.6:
                if rng.random() < 0.9 and E: a, b = rng.choice(E)
                else: a, b = rng.randrange(n), rng.randrange(n)
                if rng.random() < 0.5: a, b = b, a
                ops.append([0, a, b, rng.choice([0, 1, 1, 2, 2])])
            elif r < 0.7: ops.append([1])
            elif r < 0.8: ops.append([2])
            elif r < 0.9:
                a, b = rng.choice(E) if E else (0, 0)
                ops.append([3, a, b, rng.choice([0, 1, 2])])      # reverse(), then the RESULT is modified: the original must not move (and vice versa)
            else: ops.append([4, rng.randrange(n), rng.randrange(n + 1)])
        out.append({"G": G, "init": init, "ops": ops, "mode": mode, "s": rng.randrange(1 << 30)})
    return out
def _dump(G, o):
    names = G["names"]; n = G["n"]; M = common.matrix(G)
    dirs = [[0] * n for _ in range(n)]
    for a in range(n):
        for b in range(n):
            if M[a][b] > 0:
                r = o.get_orientation(names[a], names[b]); src = o.is_source(names[a], names[b]); snk = o.is_sink(names[a], names[b])
                d = 0 if r is None else (1 if r == (names[a], names[b]) else 2)
                if (src, snk) != {0: (None, None), 1: (True, False), 2: (False, True)}[d]: d = -9
                dirs[a][b] = d
    return {"dir": dirs, "inc": [o.get_in_degree(x) for x in names], "out": [o.get_out_degree(x) for x in names]}
def impl(c):
    from chipfiring import CFOrientation, is_winnable
    from chipfiring.CFOrientation import OrientationState
    from chipfiring.CFGraph import Vertex
    rng = random.Random(c["s"]); G = c["G"]; names = G["names"]; ext = names + ["zz_u0", "zz_u1", "zz_u2"]
    g = common.build_impl_graph(G, rng); gd = g.to_dict()
    try: o = CFOrientation(g, [(ext[a], ext[b]) for a, b in c["init"]])
    except ValueError: return {"init": "err", "graph_same": g.to_dict() == gd}
    out = {"init": "ok", "st0": _dump(G, o), "steps": []}; held = []
    ST = {0: OrientationState.NO_ORIENTATION, 1: OrientationState.SOURCE_TO_SINK, 2: OrientationState.SINK_TO_SOURCE}
    for op in c["ops"]:
        res = None; before = _dump(G, o)
        try:
            if op[0] == 0: o.set_orientation(Vertex(ext[op[1]]), Vertex(ext[op[2]]), ST[op[3]]); res = ["ok"]
            elif op[0] == 1: res = [1 if o.check_fullness() else 0]
            elif op[0] == 2:
                d = o.divisor(); dl = common.div_to_list(G, d); K = common.div_to_list(G, o.canonical_divisor()); rv = common.div_to_list(G, o.reverse().divisor())
                res = ["ok", dl, {"deg": d.get_total_degree(), "genus": g.get_genus(), "K": K, "rev": rv}]
            elif op[0] == 3:
                R = o.reverse(); res = ["ok", _dump(G, R)]
                if len(op) > 1:
                    try: R.set_orientation(Vertex(names[op[1]]), Vertex(names[op[2]]), ST[op[3]])
                    except (ValueError, RuntimeError, KeyError): pass
                    held.append([R, _dump(G, R)])
            else:
                r = o.get_orientation(ext[op[1]], ext[op[2]]); res = ["ok", 0 if r is None else (1 if r == (ext[op[1]], ext[op[2]]) else 2)]
        except (ValueError, RuntimeError, KeyError): res = ["err"]
        st = _dump(G, o)
        out["steps"].append({"res": res, "st": st, "unchanged_on_err": (res != ["err"]) or st == before})
    out["graph_same"] = g.to_dict() == gd
    out["held"] = [[then, _dump(G, R)] for R, then in held]      # reversed copies taken along the way: as they were left, and now
    if c["mode"] == "acyclic":
        o2 = CFOrientation(g, [(names[a], names[b]) for a, b in c["init"]]); out["acyclic_winnable"] = bool(is_winnable(o2.divisor()))
    return out
def model_lines(c):
    toks = ["ohist"] + common.enc_graph(c["G"]) + [len(c["init"])] + [x for p in c["init"] for x in p] + [len(c["ops"])]
    for op in c["ops"]: toks += (op if op[0] != 3 else [3])
    return [toks]
def _pst(txt, n):
    a, b, cc = txt.split(";"); a = [int(x) for x in a.split()]
    return {"dir": [a[i * n:(i + 1) * n] for i in range(n)], "inc": [int(x) for x in b.split()], "out": [int(x) for x in cc.split()]}
def judge(c, r, mo):
    if "exc" in r: return [{"what": "implementation raised %s: %s" % (r["exc"], r.get("msg"))}]
    o = r["ok"]; n = c["G"]["n"]; txt = " ".join(mo[0])
    if not o.get("graph_same", True): return [{"what": "the graph was modified by orientation calls"}]
    if txt.startswith("err") or o["init"] == "err":
        return [] if (txt.startswith("err") and o["init"] == "err") else [{"what": "constructor with %s: implementation %s, model %s" % (c["init"], o["init"], txt[:3])}]
    parts = txt.split("|")[:-1]; st0 = _pst(parts[0][2:], n)
    if o["st0"] != st0: return [{"what": "after construction with %s: %s, model %s" % (c["init"], o["st0"], st0)}]
    for i, (p, ir) in enumerate(zip(parts[1:], o["steps"])):
        op = c["ops"][i]; rev = None
        if "[" in p:
            j = p.index("["); k = p.index("]"); rev = _pst(p[j + 1:k], n); p = p[:j] + p[k + 1:]
        head, st = p.split(";", 1); head = head.split(); mst = _pst(st, n)
        if not ir["unchanged_on_err"]: return [{"what": "op #%d %s was refused but changed the orientation" % (i, op)}]
        if op[0] == 3 and head[0] == "ok":
            if ir["res"][0] != "ok" or ir["res"][1] != rev: return [{"what": "op #%d reverse(): %s, model %s" % (i, ir["res"], rev)}]
        elif op[0] == 2 and head[0] == "ok":
            dl = [int(x) for x in head[1:]]
            if ir["res"][0] != "ok" or ir["res"][1] != dl: return [{"what": "op #%d divisor(): %s, model %s" % (i, ir["res"][:2], dl)}]
            x = ir["res"][2]
            if x["deg"] != x["genus"] - 1 or [a + b for a, b in zip(dl, x["rev"])] != x["K"]:
                return [{"what": "full orientation identities fail: deg %s genus %s, D(O)+D(rev O)=%s, K=%s" % (x["deg"], x["genus"], [a + b for a, b in zip(dl, x["rev"])], x["K"])}]
        else:
            exp = ["err"] if head[0] == "err" else (["ok"] if op[0] == 0 else [int(head[0])] if op[0] == 1 else ["ok", int(head[1])] if op[0] == 4 else ["ok"])
            if ir["res"][:len(exp)] != exp: return [{"what": "op #%d %s: implementation %s, model %s" % (i, op, ir["res"], exp)}]
        if ir["st"] != mst: return [{"what": "after op #%d %s: %s, model %s" % (i, op, ir["st"], mst)}]
    if o.get("acyclic_winnable"): return [{"what": "the divisor of an acyclic orientation (vertex order) is reported winnable"}]
    M = common.matrix(c["G"])
    for then, now in o.get("held", []):
        if then != now: return [{"what": "an orientation returned by reverse() changed when the original was modified afterwards: %s -> %s" % (then, now)}]
        d = now["dir"]
        inc = [sum(M[v][w] for w in range(n) if M[v][w] and d[w][v] == 1) for v in range(n)]; outc = [sum(M[v][w] for w in range(n) if M[v][w] and d[v][w] == 1) for v in range(n)]
        if inc != now["inc"] or outc != now["out"]: return [{"what": "a modified reverse() result has counters %s/%s but its own edges give %s/%s" % (now["inc"], now["out"], inc, outc)}]
    return []
def oracle(c, r):
    """recount from the stored directions"""
    if r is None or "exc" in r: return {"violates": True, "why": "raised"}
    o = r["ok"]; M = common.matrix(c["G"]); n = c["G"]["n"]
    def bad(st):
        d = st["dir"]
        for a in range(n):
            for b in range(n):
                if M[a][b] and (d[a][b] not in (0, 1, 2) or d[b][a] != {0: 0, 1: 2, 2: 1}[d[a][b]]): return "endpoints disagree on edge %d-%d" % (a, b)
        inc = [sum(M[v][w] for w in range(n) if M[v][w] and d[w][v] == 1) for v in range(n)]; out = [sum(M[v][w] for w in range(n) if M[v][w] and d[v][w] == 1) for v in range(n)]
        if inc != st["inc"] or out != st["out"]: return "counters %s/%s, recount %s/%s" % (st["inc"], st["out"], inc, out)
        return None
    if o["init"] == "err": return {"violates": False}
    exp_dir = [list(row) for row in o["st0"]["dir"]]       # the direction table followed from the definition: an accepted set_orientation(a, b, st) stores st at (a, b) and its mirror at (b, a)
    for i, ir in enumerate([{"st": o["st0"], "res": ["ok"], "unchanged_on_err": True}] + o["steps"]):
        if i > 0 and c["ops"][i - 1][0] == 0 and ir["res"] and ir["res"][0] == "ok":
            _, a_, b_, st_ = c["ops"][i - 1]
            if a_ < n and b_ < n and M[a_][b_]: exp_dir[a_][b_] = st_; exp_dir[b_][a_] = {0: 0, 1: 2, 2: 1}[st_]
        if ir["st"]["dir"] != exp_dir: return {"violates": True, "why": "after step %d the direction table is %s, by definition %s" % (i - 1, ir["st"]["dir"], exp_dir)}
        b = bad(ir["st"])
        if b: return {"violates": True, "why": "after step %d: %s" % (i - 1, b)}
        if not ir["unchanged_on_err"]: return {"violates": True, "why": "refused call changed state at step %d" % (i - 1)}
        if i > 0 and c["ops"][i - 1][0] in (1, 2, 3):
            full = all(ir["st"]["dir"][a][b] != 0 for a in range(n) for b in range(n) if M[a][b])
            got = (ir["res"][0] == 1) if c["ops"][i - 1][0] == 1 else (ir["res"][0] == "ok")
            if got != full: return {"violates": True, "why": "step %d: fullness reported %s, actually %s" % (i - 1, got, full)}
            if c["ops"][i - 1][0] == 2 and ir["res"][0] == "ok" and len(ir["res"]) > 2:
                # the identities of a full orientation, from the definitions: D(O)(v) = indeg(v) - 1, deg D(O) = g - 1, D(O) + D(rev O) = K with K(v) = val(v) - 2
                d = ir["st"]["dir"]; inc = [sum(M[v][w] for w in range(n) if M[v][w] and d[w][v] == 1) for v in range(n)]; out = [sum(M[v][w] for w in range(n) if M[v][w] and d[v][w] == 1) for v in range(n)]
                x = ir["res"][2]; K = [sum(M[v]) - 2 for v in range(n)]; gen = sum(map(sum, M)) // 2 - n + 1
                if ir["res"][1] != [a - 1 for a in inc] or x["rev"] != [a - 1 for a in out] or x["K"] != K or x["genus"] != gen or x["deg"] != sum(inc) - n:
                    return {"violates": True, "why": "step %d: divisor %s / reverse %s / K %s / genus %s / degree %s, by definition %s / %s / %s / %s / %s" % (i - 1, ir["res"][1], x["rev"], x["K"], x["genus"], x["deg"], [a - 1 for a in inc], [a - 1 for a in out], K, gen, sum(inc) - n)}
    if o.get("acyclic_winnable"): return {"violates": True, "why": "acyclic orientation divisor winnable"}
    for then, now in o.get("held", []):
        if then != now: return {"violates": True, "why": "reverse() result moved with the original"}
        if bad(now): return {"violates": True, "why": "modified reverse() result: %s" % bad(now)}
    return {"violates": False}
def nontrivial(cases): return len({str((c["G"]["edges"], c["init"], c["ops"])) for c in cases if len(c["G"]["edges"]) >= 2 and len(c["ops"]) >= 2})
def distribution(cases):
    d = {}
    for c in cases: d[c["mode"]] = d.get(c["mode"], 0) + 1
    return {"constructor_modes": d}
