"""C09 The burning orientation is an acyclic certificate of the verdict."""
import random, common, oracle as O
RULE = ("connected multigraphs x divisors for which the non-shortcut path runs: plain mode (all degree bands) and optimized mode with 0 <= deg < g; "
        "non-trivial = distinct (graph, divisor, mode) with an unwinnable verdict (the certificate matters) or at least 2 edges")
EXPLANATION = ("the returned (divisor, orientation) goes through the verified checker cert_ok (every edge oriented exactly one way, consistent with a topological order, "
               "q the only source, chips < in-degree off q; theorem C09_cert_sound: a passing certificate with debt at q proves unwinnability)")
TWO_STAGE = True

def gen(rng, tier):
    cases = []
    for _ in range(300 if tier == "quick" else 8000):
        G, fam = common.random_connected_graph(rng, 1, 6 if tier == "quick" else 8, large_ok=True)
        g = common.genus(G); opt = rng.random() < 0.35 and g >= 1
        D = common.random_divisor(rng, G, band="low" if opt else None)
        if opt and not (0 <= sum(D) < g): opt = False
        if rng.random() < 0.15: G, D = common.thin_cut_game(rng); g = common.genus(G); opt = opt and 0 <= sum(D) < g and g >= 1; fam = "thincut"
        if rng.random() < 0.08 and G["edges"]:
            G, D = common.scale_game(rng, G, D); fam = fam + "*2^k"; opt = opt and 0 <= sum(D) < common.genus(G)
        cases.append({"G": G, "D": D, "opt": opt, "fam": fam, "s": rng.randrange(1 << 30)})
    return cases

def impl(c):
    from chipfiring import EWD
    rng = random.Random(c["s"]); G = c["G"]
    d = common.build_impl_divisor(G, c["D"], rng=rng)
    b, R, ori, _ = EWD(d.graph, d, optimized=c["opt"])
    if R is None or ori is None: return {"b": bool(b), "R": None}
    pairs = common.orientation_pairs(G, ori)
    return {"b": bool(b), "R": common.div_to_list(G, R), "pairs": pairs, "full_flag": bool(ori.check_fullness()),
            "indeg": [ori.get_in_degree(nm) for nm in G["names"]]}

def model_lines(c, r):
    g = common.enc_graph(c["G"])
    if "exc" in r or r["ok"]["R"] is None or not isinstance(r["ok"]["R"], list): return [["info"] + g]
    o = r["ok"]; pos = common.toposort_pos(c["G"]["n"], o["pairs"]); ls = []
    for q in common.min_vertices(c["D"]):
        ls.append(["certok"] + g + [q] + common.enc_list(o["R"]) + [len(o["pairs"])] + [x for p in o["pairs"] for x in p] + common.enc_list(pos))
    return ls

def judge(c, r, mo):
    if "exc" in r: return [{"what": "implementation raised %s: %s" % (r["exc"], r.get("msg")), "obligation": "C09 (no 'orientation is not full' error on connected inputs)"}]
    o = r["ok"]
    if o["R"] is None: return [{"what": "no divisor/orientation returned although the non-shortcut path applies (opt=%s, deg=%d, genus=%d)" % (c["opt"], sum(c["D"]), common.genus(c["G"]))}]
    if not any(x[0] == "1" for x in mo):
        return [{"what": "returned orientation %s with divisor %s is rejected by the verified certificate checker for every minimum-degree sink %s" % (o["pairs"], o["R"], common.min_vertices(c["D"]))}]
    if not o["full_flag"]: return [{"what": "check_fullness() is False on the returned orientation"}]
    M = common.matrix(c["G"]); n = c["G"]["n"]; ind = [sum(M[w][v] for w, v2 in o["pairs"] if v2 == v) for v in range(n)]
    if o["indeg"] != ind: return [{"what": "in-degrees reported by the returned orientation %s differ from the number of edges pointing in %s (orientation %s)" % (o["indeg"], ind, o["pairs"])}]
    if any(o["R"][v] >= ind[v] for v in range(n) if ind[v] > 0): return [{"what": "a non-source vertex holds at least its in-degree: divisor %s, in-degrees %s" % (o["R"], ind)}]
    return []

def oracle(c, r):
    if r is None or "exc" in r: return {"violates": True, "why": "raised / no result: %s" % (r,)}
    o = r["ok"]; G = c["G"]; n = G["n"]; m = O.mk(G)
    if o["R"] is None: return {"violates": True, "why": "nothing returned"}
    why = []; pairs = [tuple(p) for p in o["pairs"]]
    for a, b, k in G["edges"]:
        if ((a, b) in pairs) + ((b, a) in pairs) != 1: why.append("edge %d-%d is not oriented exactly one way" % (a, b))
    pos = common.toposort_pos(n, o["pairs"])
    if any(pos[a] >= pos[b] for a, b in pairs): why.append("orientation has a directed cycle")
    indeg = [sum(m[v][w] for w in range(n) if (w, v) in pairs) for v in range(n)]
    src = [v for v in range(n) if indeg[v] == 0]
    if len(src) != 1 or src[0] not in common.min_vertices(c["D"]): why.append("sources %s: not exactly one minimum-degree sink" % src)
    else:
        q = src[0]
        if any(o["R"][v] >= indeg[v] for v in range(n) if v != q): why.append("a vertex off q holds at least in-degree many chips: R=%s indeg=%s" % (o["R"], indeg))
        if not o["b"] and any(o["R"][v] > indeg[v] - 1 for v in range(n)): why.append("unwinnable verdict but R is not dominated by indeg-1")
    if o["indeg"] != indeg: why.append("reported in-degrees %s differ from recount %s" % (o["indeg"], indeg))
    return {"violates": bool(why), "why": why}

def nontrivial(cases):
    return len({(str(c["G"]["edges"]), str(c["D"]), c["opt"]) for c in cases if len(c["G"]["edges"]) >= 2})
def distribution(cases):
    return {"optimized_mode_cases": sum(1 for c in cases if c["opt"]), "plain_mode_cases": sum(1 for c in cases if not c["opt"])}
