"""C02 q-reduction returns the unique q-reduced representative of the class."""
import random, common, oracle as O
RULE = ("connected multigraphs x divisors (several indebted vertices, ties for the minimum) x integer scripts sigma for the pair test (D, D - L sigma) reduced "
        "w.r.t. a forced sink; non-trivial = distinct (graph, divisor) whose reduction needs at least one borrow or set-firing (input is not already reduced).")
EXPLANATION = ("q_reduction(D) and EWD(D)[1] must equal the model's reduced divisor for some minimum-degree sink (canonical by theorem C02_unique); "
               "(D, D - L sigma) reduced w.r.t. the same q must coincide with the model; is_q_reduced is compared with the verified decision procedure reduced_b")
TWO_STAGE = True

def gen(rng, tier):
    cases = []
    N = 300 if tier == "quick" else 6000
    for _ in range(N):
        G, fam = common.random_connected_graph(rng, 1, 6 if tier == "quick" else 8, large_ok=True)
        n = G["n"]; D = common.random_divisor(rng, G)
        if rng.random() < 0.15: G, D = common.thin_cut_game(rng); n = G["n"]; fam = "thincut"
      # dense clusters joined by a thin cut, few chips: edge connectivity below the minimum valence
        if rng.random() < 0.08 and G["edges"]: G, D = common.scale_game(rng, G, D); fam = fam + "*2^k"
        sigma = [rng.randint(-3, 3) if rng.random() < 0.7 else rng.randint(-40, 40) for _ in range(n)]
        c = {"G": G, "D": D, "sigma": sigma, "q": rng.randrange(n), "fam": fam, "s": rng.randrange(1 << 30)}
        if n >= 2 and rng.random() < 0.3:      # history on ONE divisor object: reduced, moved (lend / borrow / transfer), reduced again
            c["moves"] = [[rng.choice([0, 1, 2]), rng.randrange(n), rng.randrange(n), rng.randint(1, 4)] for _ in range(rng.randint(1, 3))]
        cases.append(c)
    # further families are APPENDED (own generator state), so that extending them never shifts the random stream of the cases above
    r2 = random.Random(rng.randrange(1 << 30))
    for _ in range(60 if tier == "quick" else 600):
        G = common.midsize_multigraph(r2) if r2.random() < 0.7 else common.cut_transfer_game(r2)[0]; n = G["n"]
        cases.append({"G": G, "D": common.random_divisor(r2, G), "sigma": [r2.randint(-3, 3) for _ in range(n)], "q": r2.randrange(n), "fam": "midsize", "s": r2.randrange(1 << 30)})
    if tier == "thorough":
        import itertools
        for n in (2, 3):
            pairs = [(i, j) for i in range(n) for j in range(i + 1, n)]
            for mults in itertools.product(range(3), repeat=len(pairs)):
                G = common.mk_graph(n, [(a, b, k) for (a, b), k in zip(pairs, mults) if k], None, 0)
                if not common.is_connected(G): continue
                for D in itertools.product(range(-3, 4), repeat=n):
                    cases.append({"G": G, "D": list(D), "sigma": [1] + [0] * (n - 1), "q": n - 1, "fam": "exhaustive", "s": 0})
    return cases

def impl(c):
    from chipfiring import EWD, q_reduction, is_q_reduced
    rng = random.Random(c["s"]); G = c["G"]; D = c["D"]
    out = {}
    d = common.build_impl_divisor(G, D, rng=rng); out["qr"] = common.div_to_list(G, q_reduction(d))
    d = common.build_impl_divisor(G, D, rng=rng); r = EWD(d.graph, d); out["ewd_b"] = bool(r[0]); out["ewd1"] = common.div_to_list(G, r[1])
    d = common.build_impl_divisor(G, D, rng=rng); out["isqr"] = bool(is_q_reduced(d))
    E = common.lap_apply(G, D, c["sigma"])
    out["pairD"] = common.impl_reduce_q(G, D, c["q"], rng)[0]; out["pairE"] = common.impl_reduce_q(G, E, c["q"], rng)[0]
    if c.get("moves"):
        names = G["names"]; e = common.build_impl_divisor(G, D, rng=rng); q_reduction(e)
        for k, a, b, amt in c["moves"]:
            if k == 0: e.lending_move(names[a])
            elif k == 1: e.borrowing_move(names[a])
            elif a != b: e.chip_transfer(names[a], names[b], amt)
        out["D2"] = common.div_to_list(G, e); out["qr2"] = common.div_to_list(G, q_reduction(e))
    return out

def model_lines(c, r=None):
    g = common.enc_graph(c["G"]); D = c["D"]
    ls = [["ewdq"] + g + [c["q"]] + common.enc_list(D)]
    for q in common.min_vertices(D):
        ls.append(["ewdq"] + g + [q] + common.enc_list(D)); ls.append(["reducedb"] + g + [q] + common.enc_list(D))
    if r and "ok" in r and isinstance(r["ok"].get("D2"), list):
        for q in common.min_vertices(r["ok"]["D2"]): ls.append(["ewdq"] + g + [q] + common.enc_list(r["ok"]["D2"]))
    return ls

def _R(line, n):  # "b n r.. k burn.."
    return [int(x) for x in line[2:2 + n]]

def judge(c, r, mo):
    if "exc" in r: return [{"what": "implementation raised %s: %s" % (r["exc"], r.get("msg"))}]
    if any(x[0] == "FUEL" for x in mo): return []
    n = c["G"]["n"]; out = []; o = r["ok"]
    forced = _R(mo[0], n); mins = common.min_vertices(c["D"])
    cands = {q: _R(mo[1 + 2 * i], n) for i, q in enumerate(mins)}
    redb = {q: mo[2 + 2 * i][0] == "1" for i, q in enumerate(mins)}
    if o["qr"] not in cands.values():
        out.append({"what": "q_reduction returned %s; the q-reduced representatives w.r.t. the minimum-degree sinks are %s" % (o["qr"], cands)})
    if o["ewd1"] != o["qr"]:
        out.append({"what": "EWD(D)[1]=%s differs from q_reduction(D)=%s" % (o["ewd1"], o["qr"])})
    for q, R in cands.items():
        if R == o["ewd1"] and o["ewd_b"] != (R[q] >= 0):
            out.append({"what": "verdict %s but the returned divisor has %d at the sink %d" % (o["ewd_b"], R[q], q)})
    if o["pairD"] != forced or o["pairE"] != forced:
        out.append({"what": "D and D-L*sigma reduced w.r.t. q=%d give %s and %s; the model gives %s" % (c["q"], o["pairD"], o["pairE"], forced)})
    if o["isqr"] and not any(redb.values()):
        out.append({"what": "is_q_reduced returned True on a divisor that is not q-reduced (for any minimum-degree sink)", "key": "is_q_reduced_true_on_unreduced"})
    if (not o["isqr"]) and all(redb.values()):
        out.append({"what": "is_q_reduced returned False on a divisor that is q-reduced"})
    if isinstance(o.get("D2"), list):
        base = 1 + 2 * len(mins); c2 = [_R(line, n) for line in mo[base:]]
        if c2 and o["qr2"] not in c2:
            out.append({"what": "the same divisor object reduced again after moves (now %s): q_reduction returned %s, the q-reduced representatives w.r.t. its minimum-degree sinks are %s" % (o["D2"], o["qr2"], c2)})
    return out

def oracle(c, r):
    m = O.mk(c["G"]); D = c["D"]
    if r is None or "exc" in r: return {"violates": True, "why": "no result"}
    o = r["ok"]; why = []
    for key in ("qr", "ewd1"):
        R = o[key]
        if not isinstance(R, list): why.append("%s is not a list of ints: %s" % (key, R)); continue
        if not O.lin_equiv(m, D, R): why.append("%s=%s is not linearly equivalent to D" % (key, R))
        if not any(O.is_reduced(m, R, q) for q in common.min_vertices(D)): why.append("%s=%s is not q-reduced w.r.t. any minimum-degree vertex of D" % (key, R))
    if o["pairD"] != o["pairE"]: why.append("equivalent inputs reduced w.r.t. the same q differ: %s vs %s" % (o["pairD"], o["pairE"]))
    elif not O.is_reduced(m, o["pairD"], c["q"]) or not O.lin_equiv(m, D, o["pairD"]): why.append("forced-sink reduction %s is not the q-reduced representative" % o["pairD"])
    truth = O.winnable(m, D)
    if o["ewd_b"] != truth: why.append("verdict %s, truth %s" % (o["ewd_b"], truth))
    isr = any(O.is_reduced(m, D, q) for q in common.min_vertices(D))
    if o["isqr"] != isr: why.append("is_q_reduced=%s but D %s q-reduced" % (o["isqr"], "is" if isr else "is not"))
    if isinstance(o.get("D2"), list) and isinstance(o.get("qr2"), list):
        if not O.lin_equiv(m, o["D2"], o["qr2"]) or not any(O.is_reduced(m, o["qr2"], q) for q in common.min_vertices(o["D2"])): why.append("second reduction of the same object: %s is not the reduced form of %s" % (o["qr2"], o["D2"]))
    return {"violates": bool(why), "why": why}

def nontrivial(cases):
    return len({(str(c["G"]["edges"]), str(c["D"])) for c in cases if min(c["D"]) < 0 or sum(1 for x in c["D"] if x > 1) > 0})
common.add_growth(globals())
