"""C12 Divisor arithmetic is the free abelian group on the vertices."""
import random, common
RULE = ("multigraphs x pairs/triples of integer divisors (incl. magnitudes up to 2^70) x integer scalars; equality tested across identical objects, separately built equal graphs, "
        "graphs differing in one multiplicity, graphs with equal adjacency AND equal valences but different multiplicities, different vertex sets, different chips; "
        "non-trivial = distinct case with two non-zero operands")
EXPLANATION = "results of + - unary- and n* compared with the model (vertex-wise in Z, theorems C12_*), operands snapshot before/after, result is a new object, == compared with d_eqb, mismatched vertex sets must raise"
def gen(rng, tier):
    out = []
    for _ in range(300 if tier == "quick" else 8000):
        G, fam = common.random_connected_graph(rng, 1, 6, large_ok=True); n = G["n"]; big = rng.random() < 0.25
        D = common.random_divisor(rng, G, big=big); E = common.random_divisor(rng, G, big=big); F = common.random_divisor(rng, G)
        kind = rng.choice(["same", "copy", "copy", "mult", "redistribute", "vset", "chips", "edgeset"])
        G2 = G; E2 = list(D)
        if kind == "mult" and G["edges"]:
            e = [list(x) for x in G["edges"]]; e[rng.randrange(len(e))][2] += rng.choice([1, 2]); G2 = dict(G); G2["edges"] = e
        elif kind == "edgeset" and n >= 2:
            # same vertices, one pair adjacent in one graph only
            non = [(a, b) for a in range(n) for b in range(a + 1, n) if not any(x[0] == a and x[1] == b for x in G["edges"])]
            if non and (rng.random() < 0.5 or len(G["edges"]) <= 1): G2 = common.mk_graph_like(G, [list(x) for x in G["edges"]] + [[non[0][0], non[0][1], 1]])
            elif G["edges"]: G2 = common.mk_graph_like(G, [list(x) for x in G["edges"]][1:])
        elif kind == "redistribute":
            # even cycle with alternating multiplicities (a,b,a,b..) vs (b,a,b,a..): same adjacency, same valences, different multigraph
            m = rng.choice([4, 6]); a, b = rng.sample([1, 2, 3, 4], 2)
            G = common.mk_graph(m, [(i, (i + 1) % m, a if i % 2 == 0 else b) for i in range(m)], rng); G2 = common.mk_graph(m, [(i, (i + 1) % m, b if i % 2 == 0 else a) for i in range(m)], None, 0)
            G2["names"] = G["names"]; n = m; D = common.random_divisor(rng, G); E = common.random_divisor(rng, G); F = common.random_divisor(rng, G); E2 = list(D)
        elif kind == "vset":
            G2 = common.mk_graph(n + 1, [tuple(x) for x in G["edges"]] + [(0, n, 1)], None, 0); G2["names"] = G["names"] + ["zz_extra"]; E2 = list(D) + [0]
        elif kind == "chips":
            E2 = list(D); E2[rng.randrange(n)] += rng.choice([-1, 1, 2 ** 64])
            if n >= 2 and rng.random() < 0.5:      # same total: a transfer between two vertices, often two vertices where D holds nothing
                i, j = rng.sample(range(n), 2); E2 = list(D); amt = rng.choice([1, 2, -1, 2 ** 64])
                if rng.random() < 0.6: D = list(D); D[j] += D[i]; D[i] = 0; D[i], D[j] = (0, D[j]) ; E2 = list(D); z = [v for v in range(n) if D[v] == 0 and v != i]; j = rng.choice(z) if z else j
                E2[i] += amt; E2[j] -= amt
        out.append({"G": G, "G2": G2, "D": D, "E": E, "F": F, "E2": E2, "k": rng.choice([0, 1, -1, 2, -3, 7, 2 ** 65, -2 ** 63]), "kind": kind, "v": rng.randrange(n + 1), "s": rng.randrange(1 << 30)})
    return out
def impl(c):
    from chipfiring.CFDivisor import CFDivisor, zero, chip
    rng = random.Random(c["s"]); G = c["G"]; n = G["n"]; L = lambda x: common.div_to_list(G, x)
    d = common.build_impl_divisor(G, c["D"], rng=rng); e = common.build_impl_divisor(G, c["E"], graph=d.graph if rng.random() < 0.5 else None, rng=rng); f = common.build_impl_divisor(G, c["F"], graph=d.graph, rng=rng)
    snap = lambda: (L(d), d.get_total_degree(), L(e), e.get_total_degree(), d.graph.to_dict(), e.graph.to_dict())
    before = snap(); out = {}
    a = d + e; out["add"] = L(a); out["add_t"] = a.get_total_degree(); s = d - e; out["sub"] = L(s); out["sub_t"] = s.get_total_degree()
    ng = -d; out["neg"] = L(ng); out["neg_t"] = ng.get_total_degree(); sc = c["k"] * d; out["scale"] = L(sc); out["scale_t"] = sc.get_total_degree()
    out["fresh"] = all(x is not d and x is not e and x.degrees is not d.degrees and x.degrees is not e.degrees for x in (a, s, ng, sc))
    out["assoc"] = L((d + e) + f) == L(d + (e + f)); out["comm"] = L(d + e) == L(e + d); out["zero"] = L(d + zero(d.graph)) == L(d); out["inv"] = L(d + (-d)) == [0] * n
    out["dist"] = L(c["k"] * (d + e)) == L(c["k"] * d + c["k"] * e)
    # augmented assignment: `x += e` / `x -= e` rebind the name to the sum; the object x referred to (still referred to by d) must not move
    acc = d; acc += e; acc2 = d; acc2 -= e
    out["aug"] = [L(acc), L(acc2), acc is not d and acc2 is not d]
    # mutate a result: operands must not move (no shared storage)
    a.lending_move(G["names"][0]); a.chip_transfer(G["names"][0], G["names"][-1], 3)
    out["pure"] = before == snap()
    try:
        ch = chip(d.graph, (G["names"] + ["zz_unknown"])[c["v"]]); out["chip"] = L(ch)
        # the generators hand out new objects: a result that is modified in place must not be what the next call returns
        ch.lending_move(G["names"][c["v"]]); ch.chip_transfer(G["names"][0], G["names"][-1], 2); z = zero(d.graph); z.borrowing_move(G["names"][0])
        out["chip_again"] = L(chip(d.graph, common.fresh(G["names"][c["v"]]))); out["zero_again"] = L(zero(d.graph))
    except ValueError: out["chip"] = "err"
    d2 = common.build_impl_divisor(c["G2"], c["E2"], rng=rng) if c["kind"] != "same" else d
    out["eq"] = bool(d == d2); out["eq_sym"] = bool(d2 == d); out["ne_other_type"] = not (d == 5)
    try: d + d2; out["add2"] = "ok"
    except ValueError: out["add2"] = "err"
    try: d - d2; out["sub2"] = "ok"
    except ValueError: out["sub2"] = "err"
    return out
def model_lines(c):
    n = c["G"]["n"]; n2 = c["G2"]["n"]
    return [["darith", n] + common.enc_list(c["D"]) + [n] + common.enc_list(c["E"]), ["dunary", n] + common.enc_list(c["D"]) + [c["k"]],
            ["deq"] + common.enc_graph(c["G"]) + common.enc_list(c["D"]) + common.enc_graph(c["G2"]) + common.enc_list(c["E2"] if c["kind"] != "same" else c["D"]),
            ["chip", n, c["v"]], ["darith", n] + common.enc_list(c["D"]) + [n2] + common.enc_list(c["E2"])]
def judge(c, r, mo):
    if "exc" in r: return [{"what": "implementation raised %s: %s" % (r["exc"], r.get("msg"))}]
    o = r["ok"]; out = []
    add, sub = " ".join(mo[0]).split("|"); add = [int(x) for x in add.split()[1:]]; sub = [int(x) for x in sub.split()[1:]]
    neg, sc = " ".join(mo[1]).split("|"); neg = [int(x) for x in neg.split()]; sc = [int(x) for x in sc.split()]
    for k, want in (("add", add), ("sub", sub), ("neg", neg), ("scale", sc)):
        if o[k] != want: out.append({"what": "%s: %s, model %s (D=%s E=%s k=%s)" % (k, o[k], want, c["D"], c["E"], c["k"])})
        if o[k + "_t"] != sum(want): out.append({"what": "%s: total degree %s, should be %d" % (k, o[k + "_t"], sum(want))})
    if o.get("aug") != [add, sub, True]: out.append({"what": "D += E / D -= E gave %s (fresh objects: %s), the sum and difference are %s / %s" % (o.get("aug", [None, None])[:2], o.get("aug", [0, 0, None])[2], add, sub)})
    for k in ("fresh", "assoc", "comm", "zero", "inv", "dist", "pure", "ne_other_type"):
        if not o[k]: out.append({"what": "law '%s' failed (operands modified / shared storage / group law)" % k})
    ch = "err" if mo[3][0] == "err" else [int(x) for x in mo[3][1:]]
    if o["chip"] != ch: out.append({"what": "chip(G, v=%d) = %s, model %s" % (c["v"], o["chip"], ch)})
    if ch != "err" and o.get("chip_again") != ch: out.append({"what": "chip(G, v=%d) asked again after its first result was modified in place = %s, model %s" % (c["v"], o.get("chip_again"), ch)})
    if ch != "err" and o.get("zero_again") != [0] * c["G"]["n"]: out.append({"what": "zero(G) asked again after its first result was modified in place = %s" % (o.get("zero_again"),)})
    eq = mo[2][0] == "1"
    if o["eq"] != eq or o["eq_sym"] != eq: out.append({"what": "== returned %s/%s, model %s (kind=%s)" % (o["eq"], o["eq_sym"], eq, c["kind"])})
    a2 = " ".join(mo[4]).split("|")
    if o["add2"] != a2[0].split()[0] or o["sub2"] != a2[1].split()[0]: out.append({"what": "operands on vertex sets of size %d and %d: + %s, - %s; model %s" % (c["G"]["n"], c["G2"]["n"], o["add2"], o["sub2"], a2[0].split()[0])})
    return out
def oracle(c, r):
    if r is None or "exc" in r: return {"violates": True, "why": "raised"}
    o = r["ok"]; D, E, k = c["D"], c["E"], c["k"]; why = []
    if o["add"] != [a + b for a, b in zip(D, E)] or o["sub"] != [a - b for a, b in zip(D, E)] or o["neg"] != [-a for a in D] or o["scale"] != [k * a for a in D]: why.append("vertex-wise arithmetic wrong")
    if o["add_t"] != sum(D) + sum(E) or o["sub_t"] != sum(D) - sum(E) or o["neg_t"] != -sum(D) or o["scale_t"] != k * sum(D): why.append("total degree not additive")
    if o.get("aug") != [[a + b for a, b in zip(D, E)], [a - b for a, b in zip(D, E)], True]: why.append("augmented assignment modified or aliased its left operand: %s" % (o.get("aug"),))
    for x in ("fresh", "assoc", "comm", "zero", "inv", "dist", "pure"):
        if not o[x]: why.append(x)
    eq = c["kind"] == "same" or (c["G"]["names"] == c["G2"]["names"] and c["G"]["edges"] == c["G2"]["edges"] and c["D"] == c["E2"])
    if o["eq"] != eq or o["eq_sym"] != eq: why.append("== is %s, should be %s" % (o["eq"], eq))
    if (c["G"]["n"] != c["G2"]["n"]) != (o["add2"] == "err"): why.append("mismatched vertex sets: + %s" % o["add2"])
    v = c["v"]; n = c["G"]["n"]
    if o["chip"] != ("err" if v >= n else [1 if i == v else 0 for i in range(n)]): why.append("chip wrong")
    if v < n and (o.get("chip_again") != [1 if i == v else 0 for i in range(n)] or o.get("zero_again") != [0] * n): why.append("chip / zero asked again after their first result was modified: %s / %s" % (o.get("chip_again"), o.get("zero_again")))
    return {"violates": bool(why), "why": why}
def nontrivial(cases): return len({str((c["G"]["edges"], c["D"], c["E"], c["k"], c["kind"])) for c in cases if any(c["D"]) and any(c["E"])})
def distribution(cases):
    d = {}
    for c in cases: d[c["kind"]] = d.get(c["kind"], 0) + 1
    return {"equality_kinds": d}
