"""C16 Analyses never change the game they were handed."""
import random, common, oracle as O
RULE = ("connected multigraphs x divisors x random sequences of 3..10 calls over the public analysis entry points (pure: linear_equivalence incl. against the zero divisor, CFLaplacian.apply, "
        "+ - neg scale, is_legal_set_firing, is_superstable, greedy solver, gonality strategy evaluation / game, Laplacian queries; in place: EWD plain / optimized / visualize, is_winnable, q_reduction, "
        "is_q_reduced, rank, Dhar run), repeated calls on the same objects; non-trivial = distinct sequence containing at least one in-place and one pure call")
EXPLANATION = ("after every call full snapshots (degrees, cached total, identity of .graph, graph.to_dict(), adjacency, valences, total) of every object handed in are compared with the snapshot before: graphs never change, "
               "pure calls change nothing, the in-place family may only replace the caller's divisor by a linearly equivalent one (decided by the verified lin_equiv_q) of the same degree on the same graph object")
TWO_STAGE = True
PURE = ["lineq", "lineq_zero", "lap_apply", "arith", "legal", "superstable", "greedy", "gon_game", "gon_strategy", "lap_queries", "config_queries", "pcfg_legal", "pcfg_superstable", "pcfg_queries", "dhar_queries"]
# dhar_queries: read-only questions to a DharAlgorithm object, also about a vertex the graph does not contain
MOVES = ["pcfg_lend", "pcfg_borrow", "pcfg_fire"]      # ordinary moves through a PERSISTENT configuration object: expected change is known
PCFG = ["pcfg_legal", "pcfg_legal", "pcfg_superstable", "pcfg_superstable", "pcfg_queries", "superstable"] + MOVES
INPLACE = ["ewd", "ewd_opt", "ewd_vis", "is_winnable", "q_reduction", "is_q_reduced", "rank", "rank_opt", "dhar_run", "ewd_other", "dhar_other"]
# ewd_other / dhar_other: the graph argument is an equal multigraph built separately (not the divisor's own graph object): the divisor must stay on its graph
def gen(rng, tier):
    out = []
    for _ in range(160 if tier == "quick" else 3000):
        large = rng.random() < 0.15       # 9..10 vertices: size thresholds inside the library ("only for big graphs ...") are crossed; cheap calls only
        G, fam = common.random_connected_graph(rng, 9, 10) if large else common.random_connected_graph(rng, 2, 5); n = G["n"]
        D = common.random_divisor(rng, G); small = common.genus(G) <= 3 and abs(sum(D)) <= 5 and max(abs(x) for x in D) <= 6
        calls = []; session = rng.random() < 0.35 and not large       # configuration session: one CFConfig object, tests interleaved with moves, chips >= 0
        if session: D = [rng.randint(0, 3) for _ in range(n)]
        scaled = (not session) and (not large) and bool(G["edges"]) and rng.random() < 0.15       # magnitudes beyond 2^53: exact integers needed by every in-place call
        if scaled:
            if rng.random() < 0.6: D = common.random_divisor(rng, G, band="low")
            G, D = common.scale_game(rng, G, D); small = False
        for _ in range(rng.randint(6, 12) if session else rng.randint(3, 10)):
            k = rng.choice(PCFG) if session else rng.choice(PURE + INPLACE + MOVES + MOVES)
            if k in ("rank", "rank_opt") and not small: k = "is_winnable"
            if scaled and k not in ("ewd", "ewd_opt", "is_winnable", "q_reduction", "dhar_run", "lineq", "lineq_zero", "lap_apply", "arith", "lap_queries"): k = rng.choice(["ewd_opt", "is_winnable", "q_reduction", "ewd", "lineq"])
            if large and k in ("rank", "rank_opt", "superstable", "pcfg_superstable", "gon_game", "gon_strategy"): k = rng.choice(["greedy", "is_winnable", "lineq", "ewd_opt", "q_reduction", "legal"])
            calls.append([k, rng.randrange(n), [rng.randint(-2, 2) for _ in range(n)]])
        if rng.random() < 0.3: D[rng.randrange(n)] -= sum(D)      # degree 0: reaches the EWD path inside linear_equivalence(D, 0)
        out.append({"G": G, "D": D, "E": common.random_divisor(rng, G), "calls": calls, "q0": rng.randrange(n), "s": rng.randrange(1 << 30)})
    return out
def impl(c):
    import chipfiring.CFRank as R
    from chipfiring import EWD, is_winnable, q_reduction, linear_equivalence, CFLaplacian, CFiringScript, CFDivisor
    from chipfiring.algo import is_q_reduced
    from chipfiring.CFConfig import CFConfig
    from chipfiring.CFDhar import DharAlgorithm
    from chipfiring.CFGreedyAlgorithm import GreedyAlgorithm
    from chipfiring.CFGonality import CFGonality
    from chipfiring.CFDivisor import zero
    from chipfiring.CFGraph import Vertex
    R.Pool = common.RaisingPool
    rng = random.Random(c["s"]); G = c["G"]; names = G["names"]; n = G["n"]
    g = common.build_impl_graph(G, rng); d = common.build_impl_divisor(G, c["D"], graph=g, rng=rng); e = common.build_impl_divisor(G, c["E"], graph=g, rng=rng)
    def gsnap(): return (g.to_dict(), [[g.graph[Vertex(x)].get(Vertex(y), 0) for y in names] for x in names], [g.get_valence(x) for x in names], g.total_valence, sorted(v.name for v in g.vertices),
                         sorted(v.name for v in g.graph), sorted((v.name, w.name) for v in g.graph for w in g.graph[v]), sorted(v.name for v in g.vertex_total_valence))      # also the raw keys: no phantom rows or entries
    def dsnap(x): return (common.div_to_list(G, x), x.get_total_degree(), x.graph is g, sorted(v.name for v in x.degrees))
    steps = []; g0 = gsnap(); pcfg = CFConfig(d, names[c.get("q0", 0)]); q0 = c.get("q0", 0)
    for k, v, sc in c["calls"]:
        bd, be = dsnap(d), dsnap(e); err = None
        try:
            if k == "lineq": linear_equivalence(d, e)
            elif k == "lineq_zero": linear_equivalence(d, zero(g))
            elif k == "lap_apply": CFLaplacian(g).apply(d, CFiringScript(g, {names[i]: x for i, x in enumerate(sc)}))
            elif k == "arith": (d + e); (d - e); (-d); (3 * d); (d - zero(g)); (d + zero(g))
            elif k == "legal": CFConfig(d, names[v]).is_legal_set_firing({names[(v + 1) % n]})
            elif k == "superstable": CFConfig(d, names[v]).is_superstable()
            elif k == "greedy": GreedyAlgorithm(g, d).play()
            elif k == "gon_game":
                pl = CFDivisor(g, [(names[v], 2)]); CFGonality(g).play_gonality_game(2, pl, names[(v + 1) % n]); steps.append({"k": "placement", "same": common.div_to_list(G, pl) == [2 if i == v else 0 for i in range(n)]})
            elif k == "gon_strategy":
                pl = CFDivisor(g, [(names[v], 1)]); CFGonality(g).test_n_chip_strategy(1, pl); steps.append({"k": "placement", "same": common.div_to_list(G, pl) == [1 if i == v else 0 for i in range(n)]})
            elif k == "lap_queries": L = CFLaplacian(g); L.get_matrix_entry(names[0], names[v]); L.get_reduced_matrix(Vertex(names[v]))
            elif k == "config_queries": cf = CFConfig(d, names[v]); cf.is_non_negative(); cf.get_degree_sum(); cf.get_config_degrees_as_dict(); cf.copy()
            elif k == "pcfg_legal": pcfg.is_legal_set_firing({names[x] for x in range(n) if x != q0 and (x + v) % 2 == 0} or {names[(q0 + 1) % n]})
            elif k == "pcfg_superstable": pcfg.is_superstable()
            elif k == "pcfg_queries": pcfg.is_non_negative(); pcfg.get_degree_sum(); pcfg.get_q_underlying_degree()
            elif k == "pcfg_lend": pcfg.lending_move(names[v])
            elif k == "pcfg_borrow": pcfg.borrowing_move(names[v])
            elif k == "pcfg_fire": pcfg.set_fire({names[x] for x in range(n) if x != q0 and (x + v) % 3 != 0})
            elif k == "dhar_queries":
                dq = DharAlgorithm(g, common.build_impl_divisor(G, c["D"], graph=g, rng=rng), names[v]); dq.outdegree_S(Vertex(names[(v + 1) % n]), {Vertex(names[v])}); dq.outdegree_S(Vertex("zz_unknown"), {Vertex(names[v])}); dq.outdegree_S(Vertex(names[v]), {Vertex("zz_unknown")})
            elif k == "ewd": EWD(g, d)
            elif k == "ewd_opt": EWD(g, d, optimized=True)
            elif k == "ewd_vis": EWD(g, d, visualize=True)
            elif k == "is_winnable": is_winnable(d)
            elif k == "q_reduction": q_reduction(d)
            elif k == "is_q_reduced": is_q_reduced(d)
            elif k == "rank": R.rank(d)
            elif k == "rank_opt": R.rank(d, optimized=True)
            elif k == "dhar_run": DharAlgorithm(g, d, names[v]).run()
            elif k == "ewd_other": EWD(common.build_impl_graph(G, rng), d)
            elif k == "dhar_other": DharAlgorithm(common.build_impl_graph(G, rng), d, names[v]).run()
        except Exception as ex: err = type(ex).__name__ + ":" + str(ex)[:80]
        steps.append({"k": k, "v": v, "before": bd, "after": dsnap(d), "e_same": be == dsnap(e), "g_same": g0 == gsnap(), "err": err})
    return steps
def model_lines(c, r):
    g = common.enc_graph(c["G"]); ls = []
    if "ok" in r:
        for st in r["ok"]:
            if st["k"] in INPLACE and st["before"][0] != st["after"][0] and isinstance(st["after"][0], list):
                ls.append(["linq"] + g + [0] + common.enc_list(st["before"][0]) + common.enc_list(st["after"][0]))
    return ls or [["info"] + g]
def judge(c, r, mo):
    if "exc" in r: return [{"what": "scenario raised %s: %s" % (r["exc"], r.get("msg"))}]
    out = []; mi = 0
    for i, st in enumerate(r["ok"]):
        if st["k"] == "placement":
            if not st["same"]: out.append({"what": "gonality strategy evaluation modified the placement divisor"})
            continue
        if st["err"]: out.append({"what": "call #%d %s raised %s" % (i, st["k"], st["err"])}); break
        if not st["g_same"]: out.append({"what": "call #%d %s modified the graph" % (i, st["k"])}); break
        if not st["e_same"]: out.append({"what": "call #%d %s modified the second divisor" % (i, st["k"])}); break
        b, a = st["before"], st["after"]
        if st["k"] in MOVES:
            n = c["G"]["n"]; q0 = c.get("q0", 0); v = st["v"]
            sc = [0] * n
            if st["k"] == "pcfg_lend": sc[v] = 1
            elif st["k"] == "pcfg_borrow": sc[v] = -1
            else:
                for x in range(n):
                    if x != q0 and (x + v) % 3 != 0: sc[x] = 1
            exp = common.lap_apply(c["G"], b[0], sc)
            if a[0] != exp or a[1] != b[1]: out.append({"what": "move #%d %s through the configuration gave %s, expected %s" % (i, st["k"], a[0], exp)}); break
        elif st["k"] in PURE:
            if a != b: out.append({"what": "pure call #%d %s changed its argument divisor: %s -> %s" % (i, st["k"], b[0], a[0])}); break
        else:
            if not isinstance(a[0], list) or a[1] != b[1] or sum(a[0]) != sum(b[0]) or not a[2] or a[3] != b[3]:
                out.append({"what": "in-place call #%d %s left the divisor with another degree / graph / vertex set: %s -> %s" % (i, st["k"], b, a)}); break
            if a[0] != b[0]:
                if mo[mi][0] not in ("1", "FUEL"): out.append({"what": "in-place call #%d %s replaced %s by %s, which is not linearly equivalent (verified lin_equiv_q)" % (i, st["k"], b[0], a[0])}); break
                mi += 1
    return out
def oracle(c, r):
    if r is None or "exc" in r: return {"violates": True, "why": "raised"}
    m = O.mk(c["G"])
    for i, st in enumerate(r["ok"]):
        if st["k"] == "placement":
            if not st["same"]: return {"violates": True, "why": "placement modified"}
            continue
        if st["err"] or not st["g_same"] or not st["e_same"]: return {"violates": True, "why": "call #%d %s: %s" % (i, st["k"], st)}
        if st["k"] in MOVES: continue
        if st["k"] in PURE and st["before"] != st["after"]: return {"violates": True, "why": "pure call #%d %s changed %s -> %s" % (i, st["k"], st["before"][0], st["after"][0])}
        if st["k"] in INPLACE and (st["after"][1] != st["before"][1] or not st["after"][2] or not O.lin_equiv(m, st["before"][0], st["after"][0])):
            return {"violates": True, "why": "in-place call #%d %s left the class / degree / graph" % (i, st["k"])}
    return {"violates": False}
def nontrivial(cases): return len({str(c["calls"]) + str(c["D"]) for c in cases if any(k in PURE for k, _, _ in c["calls"]) and any(k in INPLACE for k, _, _ in c["calls"])})
def distribution(cases):
    d = {}
    for c in cases:
        for k, _, _ in c["calls"]: d[k] = d.get(k, 0) + 1
    return {"calls_by_entry_point": d}
