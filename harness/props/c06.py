"""C06 Laplacian is the graph Laplacian; applying a script is exact D - L*s."""
import random, json, os, tempfile, common
RULE = ("multigraphs (incl. multiplicities up to 2^40 and beyond 2^63) x divisors x integer scripts: sparse / dense / built incrementally by set_firings and update_firings / "
        "entries up to 2^70 so that products cross the 64-bit range; non-trivial = distinct (graph, divisor, script) with a non-zero script on a graph with an edge")
EXPLANATION = ("matrix entries, reduced matrix and apply() compared for equality with the model (C06_apply: exactly D - L*s in Z; C06_apply_eq_scripted_moves); operands snapshot "
               "before/after; result degrees must be plain int and must be accepted by to_dict / JSON / TXT writers; apply is also compared with the implementation's own lend/borrow moves")
def gen(rng, tier):
    out = []
    for _ in range(250 if tier == "quick" else 6000):
        G, fam = common.random_connected_graph(rng, 1, 6, large_ok=True)
        if rng.random() < 0.2: G = common.add_isolated(rng, G)          # isolated vertices: zero rows and columns of the Laplacian
        if rng.random() < 0.25 and G["edges"]:
            e = [list(x) for x in G["edges"]]
            for x in e:
                if rng.random() < 0.5: x[2] *= 2 ** rng.choice([31, 33, 40, 62, 64])
            G = dict(G); G["edges"] = e
        n = G["n"]; big = rng.random() < 0.4
        D = common.random_divisor(rng, G, big=big)
        kind = rng.choice(["sparse", "dense", "huge", "mid", "incremental", "zero"])
        if kind == "sparse": s = [rng.randint(-5, 5) if rng.random() < 0.3 else 0 for _ in range(n)]
        elif kind == "zero": s = [0] * n          # nothing fires: the result must still be a new object equal to D
        elif kind == "huge": s = [rng.choice([-1, 1]) * 2 ** rng.choice([31, 32, 62, 63, 64, 70]) + rng.randint(-3, 3) if rng.random() < 0.6 else rng.randint(-3, 3) for _ in range(n)]
        elif kind == "mid": s = [rng.randint(-2 ** 30, 2 ** 30) for _ in range(n)]
        else: s = [rng.randint(-9, 9) for _ in range(n)]
        sops = []
        if kind == "incremental":
            for _ in range(rng.randint(1, 12)):
                bad = rng.random() < 0.1
                sops.append([rng.randrange(2), n + 1 if bad else rng.randrange(n), rng.randint(-6, 6)])
        t = [rng.randint(-4, 4) for _ in range(n)]
        # a series of related scripts applied through the SAME CFLaplacian object: each differs from the previous one in a single entry
        # (one more borrow, one more lend, a jump by 2^61-1 / 2^64, a sign flip) - the variants a cache keyed on the script would confuse
        series = []; cur = list(s)
        for _ in range(rng.randint(2, 5)):
            cur = list(cur); i = rng.randrange(n); how = rng.choice(["dec", "inc", "m61", "p64", "neg", "same", "small"])
            if how == "dec": cur[i] -= 1
            elif how == "inc": cur[i] += 1
            elif how == "m61": cur[i] += rng.choice([-1, 1]) * (2 ** 61 - 1)
            elif how == "p64": cur[i] += 2 ** 64
            elif how == "neg": cur[i] = -cur[i]
            elif how == "small": cur[i] = rng.choice([-2, -1, 0, 1, 2])
            series.append(cur)
        out.append({"G": G, "D": D, "s": s, "t": t, "sops": sops, "q": rng.randrange(n), "kind": kind, "seed": rng.randrange(1 << 30), "order": rng.sample(range(n), n), "series": series})
    return out
def impl(c):
    from chipfiring import CFLaplacian, CFiringScript, CFDataProcessor
    from chipfiring.CFGraph import Vertex
    rng = random.Random(c["seed"]); G = c["G"]; names = G["names"]; n = G["n"]; ext = names + ["zz_unknown0", "zz_unknown1"]
    d = common.build_impl_divisor(G, c["D"], rng=rng); g = d.graph; L = CFLaplacian(g)
    out = {"M": [[L.get_matrix_entry(a, b) for b in names] for a in names]}
    red = L.get_reduced_matrix(Vertex(names[c["q"]])); rest = [x for i, x in enumerate(names) if i != c["q"]]
    out["R"] = [[red[Vertex(a)][Vertex(b)] for b in rest] for a in rest]; out["Rkeys"] = sorted(v.name for v in red) == sorted(rest) and all(sorted(w.name for w in red[Vertex(a)]) == sorted(rest) for a in rest)     # no row AND no column for q (C06_source_reduced_matrix)
    sc = CFiringScript(g, {names[i]: x for i, x in enumerate(c["s"]) if x != 0 or rng.random() < 0.3})
    sres = []
    for o in c["sops"]:
        try:
            (sc.set_firings if o[0] == 0 else sc.update_firings)(ext[o[1]], o[2]); sres.append("ok")
        except ValueError: sres.append("err")
        sres.append([sc.get_firings(x) for x in names])
    out["sres"] = sres; out["script"] = [sc.get_firings(x) for x in names]
    before = (common.div_to_list(G, d), d.get_total_degree(), dict(sc.script))
    r = L.apply(d, sc)
    out["apply"] = common.div_to_list(G, r); out["total"] = r.get_total_degree()
    out["total_type_ok"] = type(r.get_total_degree()) is int
    out["pure"] = before == (common.div_to_list(G, d), d.get_total_degree(), dict(sc.script)) and r is not d
    # additivity: apply(apply(D, s), t) vs apply(D, s + t)
    st = CFiringScript(g, {names[i]: out["script"][i] + c["t"][i] for i in range(n)}); tt = CFiringScript(g, {names[i]: c["t"][i] for i in range(n)})
    out["add_l"] = common.div_to_list(G, L.apply(d, st)); out["add_r"] = common.div_to_list(G, L.apply(L.apply(d, sc), tt))
    # the same divisor by the scripted lends / borrows one at a time (only for small scripts)
    if max(abs(x) for x in out["script"]) <= 12:
        e = common.build_impl_divisor(G, c["D"], graph=g, rng=rng)
        for v in c["order"]:
            k = out["script"][v]
            for _ in range(abs(k)): (e.lending_move if k > 0 else e.borrowing_move)(names[v])
        out["moves"] = common.div_to_list(G, e)
    out["series"] = [common.div_to_list(G, L.apply(d, CFiringScript(g, {names[i]: x for i, x in enumerate(sv)}))) for sv in c.get("series", [])]
    out["pure2"] = before == (common.div_to_list(G, d), d.get_total_degree(), dict(sc.script))
    # two script objects built from ONE dict object (and the dict read again afterwards): an update of one must not reach the other or the caller's dict
    src = {names[i]: x for i, x in enumerate(out["script"])}; src0 = dict(src); sA = CFiringScript(g, src); sB = CFiringScript(g, src)
    sA.update_firings(names[c["q"]], 3); sA.set_firings(names[(c["q"] + 1) % n], -7)
    out["shared_dict_ok"] = src == src0 and [sB.get_firings(x) for x in names] == out["script"] and common.div_to_list(G, L.apply(d, sB)) == out["apply"]
    # history on ONE script object: it has been read and applied above; now it is updated / set and applied again (and read back)
    i2 = c["q"]; k2 = 1 + (c["seed"] % 5); sc.update_firings(names[i2], k2); out["again1"] = common.div_to_list(G, L.apply(d, sc))
    sc.set_firings(names[(i2 + 1) % n], -k2); sc.update_firings(names[i2], -2 * k2); out["again2"] = common.div_to_list(G, L.apply(d, sc)); out["again_script"] = [dict(sc.script)[x] for x in names]
    # serializers accept the result
    ser = []
    try:
        dd = r.to_dict(); json.dumps(dd); ser.append("dict")
        with tempfile.TemporaryDirectory() as td:
            dp = CFDataProcessor()
            dp.to_json(r, os.path.join(td, "x.json")); back = dp.read_json(os.path.join(td, "x.json"), "divisor")
            ser.append("json" if back is not None and common.div_to_list(G, back) == out["apply"] else "json-mismatch")
            dp.to_txt(r, os.path.join(td, "x.txt")); ser.append("txt")
    except Exception as e: ser.append("FAILED:%s:%s" % (type(e).__name__, str(e)[:80]))
    out["ser"] = ser
    return out
def model_lines(c):
    g = common.enc_graph(c["G"]); n = c["G"]["n"]
    toks = ["shist", n, len(c["sops"]) + n]
    for i, x in enumerate(c["s"]): toks += [0, i, x]      # initial script = n set operations
    for o in c["sops"]: toks += o
    return [["lapm"] + g, ["lapred"] + g + [c["q"]], toks]
def _again_scripts(c, script):
    """the script after update_firings(q, k) and after set_firings(q+1, -k); update_firings(q, -2k) (k as in impl)"""
    n = c["G"]["n"]; i2 = c["q"]; k2 = 1 + (c["seed"] % 5); s1 = list(script); s1[i2] += k2; s2 = list(s1); s2[(i2 + 1) % n] = -k2; s2[i2] += -2 * k2 if (i2 + 1) % n != i2 else 0
    if (i2 + 1) % n == i2: s2[i2] = -k2 - 2 * k2
    return [s1, s2]
def judge(c, r, mo):
    if "exc" in r: return [{"what": "implementation raised %s: %s" % (r["exc"], r.get("msg"))}]
    o = r["ok"]; n = c["G"]["n"]; out = []
    M = [int(x) for x in mo[0]]; M = [M[i * n:(i + 1) * n] for i in range(n)]
    R = [int(x) for x in mo[1]]; R = [R[i * (n - 1):(i + 1) * (n - 1)] for i in range(n - 1)]
    if o["M"] != M: out.append({"what": "Laplacian entries %s, model %s" % (o["M"], M)})
    if o["R"] != R or not o["Rkeys"]: out.append({"what": "reduced Laplacian (q=%d) %s, model %s%s" % (c["q"], o["R"], R, "" if o["Rkeys"] else "; its row/column keys are not exactly the vertices other than q")})
    steps = " ".join(mo[2]).split("|")[:-1][n:]
    exp = []
    for st in steps:
        t = st.split(); exp.append(t[0]); exp.append([int(x) for x in t[1:]])
    if o["sres"] != exp: out.append({"what": "script set/update history: implementation %s, model %s" % (o["sres"], exp)})
    c["_script"] = o["script"]
    return out
TWO_STAGE = True
def model_lines(c, r):
    g = common.enc_graph(c["G"]); n = c["G"]["n"]
    toks = ["shist", n, len(c["sops"]) + n]
    for i, x in enumerate(c["s"]): toks += [0, i, x]
    for o in c["sops"]: toks += o
    ls = [["lapm"] + g, ["lapred"] + g + [c["q"]], toks]
    if "ok" in r:
        sc = r["ok"]["script"]
        ls.append(["lapapply"] + g + common.enc_list(c["D"]) + common.enc_list(sc))
        ls.append(["scripted"] + g + common.enc_list(c["D"]) + common.enc_list(sc if max(abs(x) for x in sc) <= 12 else [0] * n) + common.enc_list(c["order"]))
        for sv in c.get("series", []): ls.append(["lapapply"] + g + common.enc_list(c["D"]) + common.enc_list(sv))
        for sv in _again_scripts(c, sc): ls.append(["lapapply"] + g + common.enc_list(c["D"]) + common.enc_list(sv))
    return ls
_j1 = judge
def judge(c, r, mo):
    out = _j1(c, r, mo)
    if "exc" in r or out: return out
    o = r["ok"]; A = [int(x) for x in mo[3]]; S = [int(x) for x in mo[4]]
    if o["apply"] != A: out.append({"what": "apply(D=%s, s=%s) returned %s, exact D - L*s is %s" % (c["D"], o["script"], o["apply"], A)})
    if o["total"] != sum(A) or not o["total_type_ok"]: out.append({"what": "total degree of the result is %r, sum of exact degrees %d" % (o["total"], sum(A))})
    if not o["pure"]: out.append({"what": "apply modified its divisor or script argument"})
    if o["add_l"] != o["add_r"]: out.append({"what": "apply is not additive in the script: %s vs %s" % (o["add_l"], o["add_r"])})
    if "moves" in o and (o["moves"] != S or S != A): out.append({"what": "scripted lends/borrows give %s (model %s), apply gives %s" % (o["moves"], S, A)})
    if o["ser"] != ["dict", "json", "txt"]: out.append({"what": "a serializer rejected the result of apply: %s" % o["ser"]})
    for k, sv in enumerate(c.get("series", [])):
        E = [int(x) for x in mo[5 + k]]
        if o["series"][k] != E: out.append({"what": "apply #%d through the same Laplacian object with s=%s returned %s, exact D - L*s is %s" % (k + 2, sv, o["series"][k], E)}); break
    if not o.get("pure2", True): out.append({"what": "a later apply modified the divisor or the first script"})
    if not o.get("shared_dict_ok", True): out.append({"what": "two scripts built from one dict: updating one changed the other script or the caller's dict"})
    if "again1" in o:
        base = 5 + len(c.get("series", [])); s1, s2 = _again_scripts(c, o["script"])
        for key, sv, line in (("again1", s1, mo[base]), ("again2", s2, mo[base + 1])):
            E = [int(x) for x in line]
            if o[key] != E: out.append({"what": "the same script object updated to %s and applied again returned %s, exact D - L*s is %s" % (sv, o[key], E)}); break
        if o["again_script"] != s2: out.append({"what": "the script property reads %s after the updates, the script is %s" % (o["again_script"], s2)})
    return out
def oracle(c, r):
    if r is None or "exc" in r: return {"violates": True, "why": "raised"}
    o = r["ok"]; M = common.matrix(c["G"]); n = c["G"]["n"]; why = []
    if not isinstance(o["apply"], list): return {"violates": True, "why": "result degrees are not plain ints: %s" % (o["apply"],)}
    L = [[sum(M[v]) if v == w else -M[v][w] for w in range(n)] for v in range(n)]
    if o["M"] != L: why.append("matrix entries wrong")
    s = o["script"]; exact = [c["D"][v] - sum(L[v][w] * s[w] for w in range(n)) for v in range(n)]
    if o["apply"] != exact: why.append("apply returned %s, D - L*s = %s" % (o["apply"], exact))
    if not o["pure"]: why.append("arguments modified")
    if o["add_l"] != o["add_r"]: why.append("not additive")
    if o["ser"] != ["dict", "json", "txt"]: why.append("serializer: %s" % o["ser"])
    if not o.get("shared_dict_ok", True): why.append("scripts built from one dict share storage")
    if "again1" in o:
        for key, sv in zip(("again1", "again2"), _again_scripts(c, o["script"])):
            ex = [c["D"][v] - sum(L[v][w] * sv[w] for w in range(n)) for v in range(n)]
            if o[key] != ex: why.append("one script object, updated to %s and applied again: %s, D - L*s = %s" % (sv, o[key], ex)); break
        if o["again_script"] != _again_scripts(c, o["script"])[1]: why.append("script property stale: %s" % o["again_script"])
    if "sres" in o:      # the script session, recomputed from the definition: set = overwrite, update = add, unknown vertex = refused without effect
        cur = list(c["s"]); exp = []
        for op in c["sops"]:
            if op[1] >= n: exp.append("err")
            else:
                cur[op[1]] = op[2] if op[0] == 0 else cur[op[1]] + op[2]; exp.append("ok")
            exp.append(list(cur))
        if o["sres"] != exp: why.append("script set/update history %s, by definition %s" % (o["sres"], exp))
    if "moves" in o and o["moves"] != exact: why.append("moves one at a time give %s" % o["moves"])
    keep = [v for v in range(n) if v != c["q"]]
    if o["R"] != [[L[a][b] for b in keep] for a in keep]: why.append("reduced matrix wrong")
    if not o.get("Rkeys", True): why.append("the reduced matrix (q=%d) has a row or a column for q, or lacks one for another vertex" % c["q"])
    for k, sv in enumerate(c.get("series", [])):
        ex = [c["D"][v] - sum(L[v][w] * sv[w] for w in range(n)) for v in range(n)]
        if o["series"][k] != ex: why.append("apply #%d on the same Laplacian object, s=%s: %s, D - L*s = %s" % (k + 2, sv, o["series"][k], ex)); break
    return {"violates": bool(why), "why": why}
def nontrivial(cases): return len({str((c["G"]["edges"], c["D"], c["s"], c["sops"])) for c in cases if any(c["s"]) and c["G"]["edges"]})
def distribution(cases):
    d = {}
    for c in cases: d[c["kind"]] = d.get(c["kind"], 0) + 1
    return {"script_kinds": d, "graphs_with_multiplicity_above_2^31": sum(1 for c in cases if any(k >= 2 ** 31 for _, _, k in c["G"]["edges"]))}
