"""C03 Rank equals the Baker-Norine rank in both calculation modes."""
import random, common, oracle as O
RULE = ("connected multigraphs on <=4 (quick) / <=5 (thorough) vertices x divisors in every degree band (<0, 0..g-1, g..2g-2 incl. the boundary 2g-2 and divisors equivalent to K, >2g-2) "
        "x {optimized, plain} x {worker pool usable (in-process, reverse order), unusable (raises)}; non-trivial = distinct (graph, divisor) with rank >= 0")
EXPLANATION = ("rank(D).rank and r(D) in both modes and under both pool stand-ins compared for equality with the model (rank_plain: theorem C03_rank_plain; rank_opt: C03_rank_optimized_partial); "
               "Riemann-Roch and the deg > 2g-2 formula are checked on the implementation's own numbers")
def gen(rng, tier):
    out = []
    for i in range(220 if tier == "quick" else 3000):
        G, fam = common.random_connected_graph(rng, 1, 4 if tier == "quick" else 5); n = G["n"]; g = common.genus(G)
        if g > 4: continue
        band = rng.choice(["neg", "low", "mid", "mid", "high", "K", "boundary"])
        M = common.matrix(G); K = [sum(M[v]) - 2 for v in range(n)]
        if band == "K": D = common.lap_apply(G, K, [rng.randint(-1, 1) for _ in range(n)])
        elif band == "boundary":
            D = [rng.randint(0, 2) for _ in range(n)]; D[rng.randrange(n)] += (2 * g - 2) - sum(D)
        else: D = common.random_divisor(rng, G, band=band)
        if sum(D) > 7 or max(abs(x) for x in D) > 9: continue
        out.append({"G": G, "D": D, "band": band, "pool": rng.choice(["raise", "raise", "inproc"] if i % 25 else ["real"]), "s": rng.randrange(1 << 30)})
    # multi-edge paths on 3 / 4 vertices with small effective divisors (the rank loop removes chips one by one: many sub-divisors with several debtors next
    # to heavy edges); every path with multiplicities <= 3 x every divisor in the box {0,1,2}^n of degree <= 5 (both tiers)
    import itertools
    allp = []
    for n in (3, 4):
        for mults in itertools.product((1, 2, 3), repeat=n - 1):
            for D in itertools.product((0, 1, 2), repeat=n):
                if 1 <= sum(D) <= 5: allp.append((n, mults, D))
    for n, mults, D in allp:
        G = common.mk_graph(n, [(i, i + 1, mults[i]) for i in range(n - 1)], rng)
        out.append({"G": G, "D": list(D), "band": "path", "fam": "exhaustive", "pool": "raise", "s": rng.randrange(1 << 30)})
    # multi-edge stars on 4 vertices (a centre with three bundles of 1..2 edges) x divisors in the box {-1..3}^4 of degree 1..5, debt allowed: reductions of
    # D - E that take three and more burning rounds with chipless vertices burning again and again (quick: a sample of 260, thorough: all of them)
    alls = [(mults, D) for mults in itertools.product((1, 2), repeat=3) for D in itertools.product((-1, 0, 1, 2, 3), repeat=4) if 1 <= sum(D) <= 5]
    for mults, D in (rng.sample(alls, 260) if tier == "quick" else alls):
        c0 = rng.randrange(4); leaves = [v for v in range(4) if v != c0]
        G = common.mk_graph(4, [(c0, leaves[i], mults[i]) for i in range(3)], rng)
        out.append({"G": G, "D": list(D), "band": "star", "fam": "exhaustive", "pool": "raise", "s": rng.randrange(1 << 30)})
    # bottlenecks: an edge bundle thicker than the number of vertices next to a thin edge, chips on one side and debt on the other (many firing rounds
    # of the same set are needed before anything reaches the sink)
    for _ in range(60 if tier == "quick" else 600):
        n = rng.choice([3, 3, 4]); mults = [rng.choice([1, 1, 4, 5, 7]) for _ in range(n - 1)]
        G = common.mk_graph(n, [(i, i + 1, mults[i]) for i in range(n - 1)], rng)
        D = [rng.randint(-3, 1) if i == 0 else rng.randint(0, 2) if i < n - 1 else rng.randint(2, 7) for i in range(n)]
        if rng.random() < 0.5: D.reverse()
        if sum(D) > 7: continue
        out.append({"G": G, "D": D, "band": "bottleneck", "fam": "path", "pool": "raise", "s": rng.randrange(1 << 30)})
    return out
def impl(c):
    import chipfiring.CFRank as R
    from chipfiring import CFOrientation
    rng = random.Random(c["s"]); G = c["G"]
    if c["pool"] == "real":
        import multiprocessing; R.Pool = multiprocessing.Pool        # the library's own import: real worker processes (today the local worker function cannot be pickled and the code falls back)
    else: R.Pool = common.RaisingPool if c["pool"] == "raise" else common.InProcessPool
    out = {}
    for key, fn, opt in (("plain", lambda d: R.rank(d).rank, False), ("opt", lambda d: R.rank(d, optimized=True).rank, True), ("r_plain", lambda d: R.r(d), False), ("r_opt", lambda d: R.r(d, optimized=True), True)):
        d = common.build_impl_divisor(G, c["D"], rng=rng); out[key] = fn(d)
    d = common.build_impl_divisor(G, c["D"], rng=rng); K = CFOrientation(d.graph, []).canonical_divisor(); kd = K - d
    # r(K - D) costs a search over all effective divisors up to its degree: only asked when that degree is small (otherwise -2 = not asked)
    out["r_KD"] = R.r(kd) if kd.get_total_degree() <= 8 else -2; out["deg"] = sum(c["D"]); out["genus"] = d.graph.get_genus()
    out["types"] = all(type(out[k]) is int for k in ("plain", "opt", "r_plain", "r_opt", "r_KD"))
    return out
def model_lines(c):
    g = common.enc_graph(c["G"]); D = common.enc_list(c["D"])
    return [["rank"] + g + D + [0], ["rank"] + g + D + [1]]
def judge(c, r, mo):
    if "exc" in r: return [{"what": "implementation raised %s: %s" % (r["exc"], r.get("msg"))}]
    if mo[0][0] == "FUEL" or mo[1][0] == "FUEL": return []
    o = r["ok"]; mp, mopt = int(mo[0][0]), int(mo[1][0]); out = []
    for k, want in (("plain", mp), ("r_plain", mp), ("opt", mopt), ("r_opt", mopt)):
        if o[k] != want: out.append({"what": "%s = %s, the verified model gives %d (pool=%s, band=%s)" % (k, o[k], want, c["pool"], c["band"])})
    if mp != mopt: out.append({"what": "model modes disagree (%d vs %d): Riemann-Roch hypothesis of C03_rank_optimized_partial refuted?" % (mp, mopt)})
    if o["r_KD"] != -2 and o["plain"] - o["r_KD"] != o["deg"] + 1 - o["genus"]: out.append({"what": "Riemann-Roch fails on the implementation's numbers: r(D)=%d r(K-D)=%d deg=%d g=%d" % (o["plain"], o["r_KD"], o["deg"], o["genus"])})
    if o["deg"] > 2 * o["genus"] - 2 and o["plain"] != max(-1, o["deg"] - o["genus"]) and o["plain"] != -1: out.append({"what": "deg > 2g-2 but r(D) != deg - g"})
    if not o["types"]: out.append({"what": "rank values are not plain ints"})
    return out[:2]
def oracle(c, r):
    if r is None or "exc" in r: return {"violates": True, "why": "raised / no answer"}
    truth = O.rank(O.mk(c["G"]), c["D"]); bad = {k: r["ok"][k] for k in ("plain", "opt", "r_plain", "r_opt") if r["ok"][k] != truth}
    return {"violates": bool(bad), "baker_norine_rank": truth, "wrong": bad}
def nontrivial(cases): return len({str((c["G"]["edges"], c["D"])) for c in cases if sum(c["D"]) >= 0})
def distribution(cases):
    d = {}
    for c in cases: d[c["band"] + "/" + c["pool"]] = d.get(c["band"] + "/" + c["pool"], 0) + 1
    return {"band_and_pool": d}
common.add_growth(globals())
