"""C18 Visualisation recording does not perturb results; drawn elements mirror objects."""
import random, common, oracle as O
RULE = ("connected multigraphs (incl. cycles where the burn order matters) x divisors x {plain, optimized} with recording on and off; graphs / divisors / partial and full orientations "
        "with hyphen-free names for the element lists; non-trivial = distinct (graph, divisor) whose run records at least 3 steps")
EXPLANATION = ("(verdict, divisor, orientation) with recording on must equal the run with recording off and the model; the history goes through the checker: non-empty, every snapshot on an equal graph and "
               "linearly equivalent to the input (verified lin_equiv_q), last snapshot = returned divisor, snapshots independent of later mutation; element lists compared with the model specification as multisets")
TWO_STAGE = True
def gen(rng, tier):
    out = []
    for _ in range(160 if tier == "quick" else 4000):
        G, fam = common.random_connected_graph(rng, 1, 6)
        g = common.genus(G); opt = rng.random() < 0.4
        D = common.random_divisor(rng, G, band=rng.choice(["low", "mid", None]) if opt else None)
        E = [(a, b) for a, b, _ in G["edges"]]; ori = [[a, b] if rng.random() < 0.5 else [b, a] for a, b in E if rng.random() < 0.7]
        c = {"G": G, "D": D, "opt": opt, "ori": ori, "fam": fam, "s": rng.randrange(1 << 30)}
        if rng.random() < 0.2: c["DL"] = [rng.choice([1, -1]) * rng.choice([999, 1000, 1234, 10 ** 6, 2 ** 64 + 1]) if rng.random() < 0.6 else x for x in D]     # chip counts of many digits in the labels
        out.append(c)
    for _ in range(6 if tier == "quick" else 60):
        # long recorded runs: a pile of chips far from a deep debt travels one firing at a time (hundreds of recorded steps)
        n = rng.choice([3, 4]); style = rng.choice([0, 1, 2, 4]); G = common.mk_graph(n, [(i, i + 1, 1) for i in range(n - 1)], None, style)
        D = [0] * n; D[0] = -rng.randint(3, 6); D[n - 1] = rng.randint(25, 45)
        out.append({"G": G, "D": D, "opt": False, "ori": [], "fam": "longrun", "s": rng.randrange(1 << 30)})
    return out
def impl(c):
    from chipfiring import EWD, CFOrientation
    from chipfiring.CFVisualizer import _graph_to_cytoscape_elements, _divisor_to_cytoscape_elements, _orientation_to_cytoscape_elements
    rng = random.Random(c["s"]); G = c["G"]; names = G["names"]; idx = {x: i for i, x in enumerate(names)}
    s1 = rng.randrange(1 << 30)
    def run(vis):
        d = common.build_impl_divisor(G, c["D"], rng=random.Random(s1)); b, R, o, vz = EWD(d.graph, d, optimized=c["opt"], visualize=vis)
        return (bool(b), None if R is None else common.div_to_list(G, R), None if o is None else sorted(common.orientation_pairs(G, o))), vz, R
    off, vz0, _ = run(False); on, vz, Rret = run(True)
    out = {"off": off, "on": on, "vis_off_is_none": vz0 is None}
    hist = vz.history if vz is not None else None
    if hist is not None:
        out["hist"] = [common.div_to_list(G, h["divisor"]) for h in hist]
        out["hist_graph_ok"] = all(h["divisor"].graph.to_dict() == hist[0]["divisor"].graph.to_dict() for h in hist) and hist[0]["divisor"].graph.to_dict()["vertices"] == names
        # independence: mutate the returned divisor and every snapshot, then re-read the others
        before = [common.div_to_list(G, h["divisor"]) for h in hist]
        if Rret is not None: Rret.lending_move(names[0])
        ok = True
        for i, h in enumerate(hist):
            h["divisor"].borrowing_move(names[-1])
            now = [common.div_to_list(G, x["divisor"]) for x in hist]
            exp = [common.lap_apply(G, b0, [-1 if v == G["n"] - 1 else 0 for v in range(G["n"])]) if j <= i else b0 for j, b0 in enumerate(before)]
            if now != exp: ok = False; break
        out["independent"] = ok
        # the recorded ORIENTATIONS are snapshots too: each must agree with a recount from its own direction table, also after the orientation EWD returned
        # (or a later frame's) is changed
        def ocount(o_):
            pairs = common.orientation_pairs(G, o_); M_ = common.matrix(G)
            return [[sum(M_[a][b] for a, b in pairs if b == v) for v in range(G["n"])], [sum(M_[a][b] for a, b in pairs if a == v) for v in range(G["n"])]]
        def oread(o_): return [[o_.get_in_degree(x) for x in names], [o_.get_out_degree(x) for x in names]]
        okO = all(oread(h["orientation"]) == ocount(h["orientation"]) for h in hist)
        live = hist[-1]["orientation"]; pr = common.orientation_pairs(G, live)
        if pr and len(hist) >= 2:
            from chipfiring.CFOrientation import OrientationState
            from chipfiring.CFGraph import Vertex
            before_o = [oread(h["orientation"]) for h in hist[:-1]]
            a0, b0 = pr[0]; live.set_orientation(Vertex(names[b0]), Vertex(names[a0]), OrientationState.SOURCE_TO_SINK)
            okO = okO and before_o == [oread(h["orientation"]) for h in hist[:-1]] and oread(live) == ocount(live)
        out["orient_snapshots_ok"] = okO
    # element lists
    g = common.build_impl_graph(G, rng); d = common.build_impl_divisor(G, c.get("DL", c["D"]), graph=g); o = CFOrientation(g, [(names[a], names[b]) for a, b in c["ori"]])
    def nodes(els): return sorted((e["data"]["id"], e["data"]["label"]) for e in els if "source" not in e["data"])
    def edges(els): return sorted((e["data"]["id"], tuple(sorted((e["data"]["source"], e["data"]["target"]))), e["data"].get("oriented", False), e["data"].get("arrow_shape"), (e["data"]["source"], e["data"]["target"]) if e["data"].get("oriented") else None) for e in els if "source" in e["data"])
    eg, ed, eo = _graph_to_cytoscape_elements(g), _divisor_to_cytoscape_elements(d), _orientation_to_cytoscape_elements(o)
    out["el_graph"] = [nodes(eg), edges(eg)]; out["el_div"] = [nodes(ed), edges(ed)]; out["el_ori"] = [nodes(eo), edges(eo)]
    # a frame of the step-by-step recorder, drawn through its own element builder: graph + chip labels + arrows in one list
    from chipfiring.CFEWDVisualizer import EWDVisualizer
    rec = EWDVisualizer(); rec.add_step(d, o, set(), set(), q=names[0]); f = rec.history[-1]
    ef = rec._get_elements(f["divisor"], f["orientation"], f["unburnt_vertices"], f["firing_set"], f["q"]); out["el_frame"] = [nodes(ef), edges(ef)]
    # history: the graph that has just been drawn gains edges (a thicker existing edge, a new pair) and everything is drawn again
    extra = _grow2(G)
    if extra:
        for a, b, k in extra: g.add_edge(names[b], names[a], k)
        d2 = common.build_impl_divisor(G, c.get("DL", c["D"]), graph=g); o2 = CFOrientation(g, [(names[a], names[b]) for a, b in c["ori"]])
        e1, e2, e3 = _graph_to_cytoscape_elements(g), _divisor_to_cytoscape_elements(d2), _orientation_to_cytoscape_elements(o2)
        out["el2_graph"] = [nodes(e1), edges(e1)]; out["el2_div"] = [nodes(e2), edges(e2)]; out["el2_ori"] = [nodes(e3), edges(e3)]
        e4 = _divisor_to_cytoscape_elements(d); out["el2_div_old"] = [nodes(e4), edges(e4)]       # the divisor object drawn before, on the same (grown) graph
    return out
def _grow2(G):
    n = G["n"]; out = []
    if G["edges"]: out.append([G["edges"][0][0], G["edges"][0][1], 2])
    non = [(a, b) for a in range(n) for b in range(a + 1, n) if not any(e[0] == a and e[1] == b for e in G["edges"])]
    if non: out.append([non[-1][0], non[-1][1], 1])
    return out
def model_lines(c, r):
    g = common.enc_graph(c["G"]); D = common.enc_list(c["D"]); ls = [["ewd"] + g + D + [1 if c["opt"] else 0]]
    if "ok" in r and "hist" in r["ok"]:
        for h in r["ok"]["hist"]:
            if isinstance(h, list) and h != c["D"]: ls.append(["linq"] + g + [0] + D + common.enc_list(h))
    return ls
def _elements_check(c, o):
    """the drawn element lists against their specification (definition level, no model involved): used by judge() and by oracle()"""
    G = c["G"]; names = G["names"]; n = G["n"]; out = []
    # elements against the specification
    M = common.matrix(G); exp_edges = sorted(("%s-%s-%d" % (names[a], names[b], i), (names[a], names[b])) for a in range(n) for b in range(a + 1, n) for i in range(M[a][b]))
    odir = {(min(a, b), max(a, b)): (a, b) for a, b in c["ori"]}
    keys = [("el_graph", lambda v: names[v], M), ("el_div", lambda v: "%s\n%d" % (names[v], c.get("DL", c["D"])[v]), M), ("el_ori", lambda v: names[v], M)]
    if "el_frame" in o: keys.append(("el_frame", lambda v: "%s\n%d" % (names[v], c.get("DL", c["D"])[v]), M))
    if "el2_graph" in o:
        M2 = common.matrix(common.mk_graph_like(G, G["edges"] + _grow2(G)))
        keys += [("el2_graph", lambda v: names[v], M2), ("el2_div", lambda v: "%s\n%d" % (names[v], c.get("DL", c["D"])[v]), M2), ("el2_div_old", lambda v: "%s\n%d" % (names[v], c.get("DL", c["D"])[v]), M2), ("el2_ori", lambda v: names[v], M2)]
    for key, lab, MM in keys:
        exp_edges = sorted(("%s-%s-%d" % (names[a], names[b], i), (names[a], names[b])) for a in range(n) for b in range(a + 1, n) for i in range(MM[a][b]))
        nd, ed = o[key]
        if [list(x) for x in nd] != sorted([names[v], lab(v)] for v in range(n)): out.append("%s: node elements %s do not mirror the object" % (key, nd))
        if sorted((e[0], tuple(e[1])) for e in ed) != [(i, tuple(sorted(p))) for i, p in exp_edges]: out.append("%s: edge elements do not give one element per unit of multiplicity" % key)
        for e in ed:
            a, b = sorted(names.index(x) for x in e[1]); want = odir.get((a, b)) if key in ("el_ori", "el2_ori", "el_frame") else None
            if (want is None) != (not e[2]) or (e[3] == "triangle") != (want is not None) or (want is not None and list(e[4]) != [names[want[0]], names[want[1]]]):
                out.append("%s: arrow on element %s does not match the stored direction %s" % (key, e, want)); break
    return out
def judge(c, r, mo):
    if "exc" in r: return [{"what": "implementation raised %s: %s" % (r["exc"], r.get("msg"))}]
    o = r["ok"]; out = []; G = c["G"]; names = G["names"]; n = G["n"]
    if o["on"] != o["off"]: out.append({"what": "recording changes the result: off %s, on %s" % (o["off"], o["on"])})
    if not o["vis_off_is_none"]: out.append({"what": "a visualizer object is returned although recording is off"})
    if mo[0][0] != "FUEL":
        mb = mo[0][0] == "1"
        if o["on"][0] != mb: out.append({"what": "verdict with recording %s, model %s" % (o["on"][0], mb)})
        if mo[0][1] != "-":
            mR = [int(x) for x in mo[0][2:2 + n]]
            if len(common.min_vertices(c["D"])) == 1 and o["on"][1] != mR: out.append({"what": "divisor with recording %s, model %s" % (o["on"][1], mR)})
    if "hist" in o:
        H = o["hist"]
        if not H: out.append({"what": "recording is on but the history is empty"})
        elif not o["hist_graph_ok"]: out.append({"what": "a recorded snapshot sits on a different graph"})
        else:
            if o["on"][1] is not None and H[-1] != o["on"][1]: out.append({"what": "last recorded divisor %s differs from the returned one %s" % (H[-1], o["on"][1])})
            k = 1
            for h in H:
                if not isinstance(h, list) or sum(h) != sum(c["D"]): out.append({"what": "recorded snapshot %s has another degree than the input" % (h,)}); break
                if h != c["D"]:
                    if mo[k][0] not in ("1", "FUEL"): out.append({"what": "recorded snapshot %s is not linearly equivalent to the input %s" % (h, c["D"])}); break
                    k += 1
            if not o["independent"]: out.append({"what": "recorded snapshots are not independent objects (mutating one / the returned divisor changed another)"})
            if not o.get("orient_snapshots_ok", True): out.append({"what": "a recorded orientation reports in/out-degrees that differ from a recount of its own arrows, or changed when another frame's orientation was turned"})
    out += [{"what": w} for w in _elements_check(c, o)]
    return out[:3]
def oracle(c, r):
    if r is None or "exc" in r: return {"violates": True, "why": "raised"}
    o = r["ok"]; m = O.mk(c["G"]); why = []
    if o["on"] != o["off"]: why.append("on/off results differ: %s vs %s" % (o["on"], o["off"]))
    if "hist" in o:
        if not o["hist"] or not o.get("independent", True) or not o.get("orient_snapshots_ok", True): why.append("history empty or snapshots aliased")
        elif any(not O.lin_equiv(m, c["D"], h) for h in o["hist"] if isinstance(h, list)): why.append("a snapshot left the class")
        elif o["on"][1] is not None and o["hist"][-1] != o["on"][1]: why.append("last snapshot != returned divisor")
    why += _elements_check(c, o)
    return {"violates": bool(why), "why": why}
def nontrivial(cases): return len({str((c["G"]["edges"], c["D"])) for c in cases if min(c["D"]) < 0})
