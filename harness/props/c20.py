"""C20 Invalid requests are refused without side effects."""
import random, common
RULE = ("objects (graph, divisor, configuration, Dhar run, firing script, orientation, Laplacian, gonality helper) brought to a non-initial state by a random valid history, then a stream of "
        "requests of which ~65% are invalid: unknown vertex, non-edge, q where excluded, duplicated entry, loop, non-positive amount/multiplicity, mismatched vertex sets, full-orientation-only "
        "operation on a partial orientation, firing sets mixing valid and invalid names (invalid first / middle / last; set iteration order varies with the hash seed); "
        "non-trivial = distinct request stream with >= 5 refused requests of >= 3 kinds")
EXPLANATION = ("every request's outcome class (accepted / raised) is compared with the model's validators (dstep, cstep, add_edge(s), sstep, set_orientation, o_divisor, chip_at, d_add; "
               "theorems C20_*: Err exactly on the listed conditions, and a refused request leaves the run's state untouched) or, for the entry points without a state machine, with the "
               "generator's validity flag; after every refused request ALL observables of the object and of the graph and divisor it refers to are compared with the snapshot taken before")
KINDS = ["g_add_edge", "g_add_edges", "g_remove_vertex", "g_get_valence", "g_ctor_dup", "d_ctor", "d_get_degree", "d_lend", "d_borrow", "d_transfer", "d_set_fire", "d_remove_vertex", "d_add_mismatch",
         "c_ctor", "c_get_degree_at", "c_set_fire", "c_is_legal", "c_out_degree", "c_compare", "dhar_ctor", "s_ctor", "s_get", "s_set", "s_update", "o_ctor", "o_get", "o_is_source", "o_degree", "o_divisor", "o_reverse",
         "o_set", "l_entry", "gon_game", "gon_strategy", "chip", "dhar_fire"]
def gen(rng, tier):
    out = []
    for _ in range(200 if tier == "quick" else 5000):
        G, fam = common.random_connected_graph(rng, 2, 6); n = G["n"]; q = rng.randrange(n); E = [(a, b) for a, b, _ in G["edges"]]
        hist = [[rng.choice([0, 1]), rng.randrange(n)] for _ in range(rng.randint(0, 6))]
        reqs = []
        def vtx(valid): return rng.randrange(n) if valid else n + rng.randrange(2)
        def vset(valid, avoid_q=False):
            S = [v for v in rng.sample(range(n), rng.randint(1, n)) if not (avoid_q and v == q)]
            if not valid:
                bad = q if (avoid_q and rng.random() < 0.5) else n + rng.randrange(2)
                S = [v for v in S if v != bad]; S.insert(rng.choice([0, len(S) // 2, len(S)]), bad)
            return S
        for _ in range(rng.randint(4, 18)):
            k = rng.choice(KINDS); valid = rng.random() < 0.35; a = None
            if k == "g_add_edge":
                if valid: x, y = rng.sample(range(n), 2); a = [x, y, rng.randint(1, 3)]
                else: a = rng.choice([[0, 0, 1], [0, 1, 0], [0, 1, -2], [0, n, 1], [n + 1, 1, 1]])
            elif k == "g_add_edges":
                es = [rng.sample(range(n), 2) + [rng.randint(1, 2)] for _ in range(rng.randint(1, 3))]
                if not valid: es.insert(rng.randint(0, len(es)), rng.choice([[1, 1, 1], [0, 1, 0], [0, n, 2]]))
                a = es
            elif k in ("g_remove_vertex", "g_get_valence", "d_get_degree", "d_lend", "d_borrow", "d_remove_vertex", "o_degree", "chip", "s_get"): a = [vtx(valid)]
            elif k == "g_ctor_dup": valid = False; a = []
            elif k == "d_ctor": a = rng.choice([[[0, 1], [n, 1]], [[0, 1], [0, 2]], [[n + 1, 0]], [[0, 0], [0, -2]], [[n - 1, 0], [0, 3], [n - 1, 0]]]) if not valid else [[0, 1], [n - 1, -2]]
            elif k == "d_transfer": a = [vtx(True), vtx(True), rng.randint(1, 4)] if valid else rng.choice([[0, 1, 0], [0, 1, -1], [n, 0, 1], [0, n + 1, 1], [0, 0, 0], [1 % n, 1 % n, -2], [n, n, 1], [n + 1, n + 1, 3]])     # incl. the same vertex named twice
            elif k == "d_set_fire": a = vset(valid)
            elif k == "d_add_mismatch": a = []   # valid: same vertex set ; invalid: other vertex set
            elif k in ("c_ctor", "dhar_ctor"): a = [vtx(valid)]
            elif k == "c_get_degree_at":
                a = [vtx(True)] if valid else [rng.choice([q, n])]
                if valid and a[0] == q: valid = False
            elif k in ("c_set_fire", "c_is_legal"): a = vset(valid, avoid_q=True)
            elif k == "c_out_degree":
                S = vset(True, avoid_q=True) or [(q + 1) % n]
                if valid: a = [S[0], S]
                else: a = rng.choice([[q, S], [n, S], [next((v for v in range(n) if v not in S and v != q), q), S]])
            elif k == "dhar_fire":      # a firing set handed to a running Dhar object: the sink and unknown names are refused (only refusals are requested here)
                valid = False; others = [v for v in range(n) if v != q]
                a = rng.choice([[q], [q] + others[:1], list(range(n)), others[:1] + [n], [n + 1]])
            elif k == "c_compare": a = [0 if valid else 1]      # other config: same q (valid) / other q (refused for <=, >=)
            elif k == "s_ctor": a = [[0, 2], [vtx(valid), -1]]
            elif k in ("s_set", "s_update"): a = [vtx(valid), rng.randint(-3, 3)]
            elif k == "o_ctor":
                base = [list(e) for e in E[:2]]
                if not valid:
                    non = [(x, y) for x in range(n) for y in range(n) if x != y and (min(x, y), max(x, y)) not in E]
                    base.append(rng.choice([list(E[0])[::-1], list(E[0]), [0, n]] + ([list(rng.choice(non))] if non else [])))
                a = base
            elif k in ("o_get", "o_is_source", "o_set"):
                if valid and E: x, y = rng.choice(E)
                else:
                    valid = False; non = [(x, y) for x in range(n) for y in range(n) if x != y and (min(x, y), max(x, y)) not in E]
                    x, y = rng.choice(non) if non and rng.random() < 0.6 else (0, n)
                a = [x, y] + ([rng.choice([0, 1, 2])] if k == "o_set" else [])
            elif k in ("o_divisor", "o_reverse"): a = []; valid = None   # depends on the state: decided by the model
            elif k == "l_entry": a = [vtx(True), vtx(valid)]
            elif k == "gon_game": a = [0 if valid else rng.choice([1, -1]), vtx(True)] if rng.random() < 0.5 else [0, vtx(valid)]
            elif k == "gon_strategy": a = [0 if valid else 1]
            reqs.append({"k": k, "a": a, "valid": valid})
        init_o = [[a, b] for a, b in E if rng.random() < 0.6]
        if E and rng.random() < 0.35:
            # an episode on the orientation: every edge gets a direction, divisor() is asked (accepted: the orientation is full and now known to be),
            # one edge is cleared again - named from either end - and divisor() / reverse() are asked once more (the model decides: refused)
            ep = [{"k": "o_set", "a": [x, y, rng.choice([1, 2])] if rng.random() < 0.5 else [y, x, rng.choice([1, 2])], "valid": True} for x, y in E]
            ep.append({"k": "o_divisor", "a": [], "valid": None}); x, y = rng.choice(E)
            ep.append({"k": "o_set", "a": [y, x, 0] if rng.random() < 0.5 else [x, y, 0], "valid": True})
            ep += [{"k": rng.choice(["o_divisor", "o_reverse"]), "a": [], "valid": None}, {"k": "o_divisor", "a": [], "valid": None}]
            i = rng.randrange(len(reqs) + 1); reqs[i:i] = ep
        out.append({"G": G, "D": common.random_divisor(rng, G), "q": q, "hist": hist, "reqs": reqs, "init_o": init_o, "s": rng.randrange(1 << 30)})
    return out

def impl(c):
    import chipfiring
    from chipfiring import CFGraph, CFDivisor, CFLaplacian, CFiringScript, CFOrientation
    from chipfiring.CFConfig import CFConfig
    from chipfiring.CFDhar import DharAlgorithm
    from chipfiring.CFGonality import CFGonality
    from chipfiring.CFOrientation import OrientationState
    from chipfiring.CFGraph import Vertex
    from chipfiring.CFDivisor import chip
    rng = random.Random(c["s"]); G = c["G"]; n = G["n"]; names = G["names"]; ext = common.FreshNames(names + ["zz_u0", "zz_u1", "zz_u2"]); q = c["q"]
    g = common.build_impl_graph(G, rng); d = common.build_impl_divisor(G, c["D"], graph=g, rng=rng); cfg = CFConfig(d, names[q])
    g2 = common.build_impl_graph(G, rng)   # accepted edge insertions go to a graph no other object refers to (an orientation built earlier cannot know new edges)
    for op, v in c["hist"]: (d.lending_move if op == 0 else d.borrowing_move)(names[v])
    dd = common.build_impl_divisor(G, c["D"], graph=g, rng=rng); dh = DharAlgorithm(g, dd, names[q])
    sc = CFiringScript(g, {names[0]: 2}); o = CFOrientation(g, [(names[a], names[b]) for a, b in c["init_o"]]); L = CFLaplacian(g); gon = CFGonality(g)
    ST = {0: OrientationState.NO_ORIENTATION, 1: OrientationState.SOURCE_TO_SINK, 2: OrientationState.SINK_TO_SOURCE}
    M0 = common.matrix(G)
    def snap():
        ori = []
        for a in range(n):
            for b in range(n):
                if g.graph[Vertex(names[a])].get(Vertex(names[b]), 0) > 0 and M0[a][b] > 0: ori.append(o.get_orientation(names[a], names[b]))
        return (g.to_dict(), [[g.graph[Vertex(x)].get(Vertex(y), 0) for y in names] for x in names], [g.get_valence(x) for x in names], g.total_valence, g.get_genus(),
                common.div_to_list(G, d), d.get_total_degree(), cfg.get_q_vertex_name(), sorted(cfg.get_v_tilde_names()), dict(sc.script), ori,
                [o.get_in_degree(x) for x in names], [o.get_out_degree(x) for x in names], sorted(v.name for v in g.vertices), sorted(v.name for v in d.degrees),
                common.div_to_list(G, dd), dd.get_total_degree())
    out = []
    for r in c["reqs"]:
        k, a = r["k"], r["a"]; before = snap(); res = "ok"; extra = None
        try:
            if k == "g_add_edge": (g2 if r["valid"] else g).add_edge(ext[a[0]], ext[a[1]], a[2])
            elif k == "g_add_edges": g2.add_edges([(ext[x], ext[y], m) for x, y, m in a])
            elif k == "g_remove_vertex": g.remove_vertex(ext[a[0]])
            elif k == "g_get_valence": g.get_valence(ext[a[0]])
            elif k == "g_ctor_dup": CFGraph([names[0], names[1], names[0]], [])
            elif k == "d_ctor": CFDivisor(g, [(ext[x], m) for x, m in a])
            elif k == "d_get_degree": d.get_degree(ext[a[0]])
            elif k == "d_lend": d.lending_move(ext[a[0]])
            elif k == "d_borrow": d.borrowing_move(ext[a[0]])
            elif k == "d_transfer": d.chip_transfer(ext[a[0]], ext[a[1]], a[2])
            elif k == "d_set_fire": d.set_fire({ext[v] for v in a})
            elif k == "d_remove_vertex": d.remove_vertex(ext[a[0]])
            elif k == "d_add_mismatch":
                other = CFDivisor(g, []) if r["valid"] else CFDivisor(CFGraph(set(names) | {"zz_extra"}, []), [])
                d + other; d - other
            elif k == "c_ctor": CFConfig(d, ext[a[0]])
            elif k == "dhar_ctor": DharAlgorithm(g, d, ext[a[0]])
            elif k == "c_get_degree_at": cfg.get_degree_at(ext[a[0]])
            elif k == "c_set_fire": cfg.set_fire({ext[v] for v in a})
            elif k == "c_is_legal": cfg.is_legal_set_firing({ext[v] for v in a})
            elif k == "c_out_degree": cfg.get_out_degree_S(ext[a[0]], {ext[v] for v in a[1]})
            elif k == "c_compare":
                other = CFConfig(CFDivisor(g, []), names[q] if a[0] == 0 else names[(q + 1) % n]); cfg <= other; cfg >= other
            elif k == "s_ctor": CFiringScript(g, {ext[x]: m for x, m in a})
            elif k == "s_get": sc.get_firings(ext[a[0]])
            elif k == "s_set": sc.set_firings(ext[a[0]], a[1])
            elif k == "s_update": sc.update_firings(ext[a[0]], a[1])
            elif k == "o_ctor": CFOrientation(g, [(ext[x], ext[y]) for x, y in a])
            elif k == "o_get": o.get_orientation(ext[a[0]], ext[a[1]])
            elif k == "o_is_source": o.is_source(ext[a[0]], ext[a[1]]); o.is_sink(ext[a[0]], ext[a[1]])
            elif k == "o_degree": o.get_in_degree(ext[a[0]]); o.get_out_degree(ext[a[0]])
            elif k == "o_divisor": o.divisor()
            elif k == "o_reverse": o.reverse()
            elif k == "o_set": o.set_orientation(Vertex(ext[a[0]]), Vertex(ext[a[1]]), ST[a[2]])
            elif k == "l_entry": L.get_matrix_entry(ext[a[0]], ext[a[1]])
            elif k == "gon_game":
                pl = CFDivisor(g, [(names[0], 2)]); gon.play_gonality_game(2 + a[0], pl, ext[a[1]])
            elif k == "gon_strategy":
                pl = CFDivisor(g, [(names[0], 2)]); gon.test_n_chip_strategy(2 + a[0], pl)
            elif k == "chip": chip(g, ext[a[0]])
            elif k == "dhar_fire": dh.legal_set_fire({ext[v] for v in a})
        except Exception as e:
            res = "err:" + type(e).__name__
        after = snap()
        out.append({"res": res.split(":")[0], "exc": res, "unchanged": before == after, "full": all(x is not None for x in after[10]),
                    "M": [[g2.graph[Vertex(x)].get(Vertex(y), 0) for y in names] for x in names] if k in ("g_add_edges", "g_add_edge") else None,
                    "V2": [g2.get_valence(x) for x in names] + [g2.total_valence] if k in ("g_add_edges", "g_add_edge") else None})
    return out

def _apply_graph_requests(c):
    """expected adjacency after each request, from the multiset of accepted edges (per-edge refusal in batches)"""
    M = common.matrix(c["G"]); n = c["G"]["n"]; exp = []
    def ok(x, y, m): return x != y and m > 0 and x < n and y < n
    for r in c["reqs"]:
        if r["k"] == "g_add_edge" and ok(*r["a"]): M[r["a"][0]][r["a"][1]] += r["a"][2]; M[r["a"][1]][r["a"][0]] += r["a"][2]
        if r["k"] == "g_add_edges":
            for x, y, m in r["a"]:
                if not ok(x, y, m): break
                M[x][y] += m; M[y][x] += m
        exp.append([list(row) for row in M])
    return exp
def model_lines(c):
    # the divisor / configuration / script / orientation requests through the model's validators
    g = common.enc_graph(c["G"]); n = c["G"]["n"]
    dl = ["dhist"] + g + [c["q"]] + common.enc_list(c["D"]); ops = []
    for op, v in c["hist"]: ops.append([op, v])
    idx = []
    for i, r in enumerate(c["reqs"]):
        if r["k"] == "d_lend": ops.append([0, r["a"][0]]); idx.append(i)
        elif r["k"] == "d_borrow": ops.append([1, r["a"][0]]); idx.append(i)
        elif r["k"] == "d_transfer": ops.append([3] + r["a"]); idx.append(i)
        elif r["k"] == "c_set_fire": ops.append([2] + common.enc_list(r["a"])); idx.append(i)
    dl += [len(ops)] + [x for o in ops for x in o]
    sl = ["shist", n, 0]; sops = []
    for i, r in enumerate(c["reqs"]):
        if r["k"] in ("s_set", "s_update"): sops.append([0 if r["k"] == "s_set" else 1] + r["a"])
    sl = ["shist", n, len(sops)] + [x for o in sops for x in o]
    ol = ["ohist"] + g + [len(c["init_o"])] + [x for p in c["init_o"] for x in p]; oops = []
    for r in c["reqs"]:
        if r["k"] == "o_set": oops.append([0] + r["a"])
        elif r["k"] == "o_divisor": oops.append([2])
        elif r["k"] == "o_reverse": oops.append([3])
    ol += [len(oops)] + [x for o in oops for x in o]
    return [dl, sl, ol]
def judge(c, r, mo):
    if "exc" in r: return [{"what": "harness scenario raised %s: %s" % (r["exc"], r.get("msg"))}]
    res = r["ok"]; out = []
    dsteps = [s.split()[0] for s in " ".join(mo[0]).split("|")[:-1]][len(c["hist"]):]
    ssteps = [s.split()[0] for s in " ".join(mo[1]).split("|")[:-1]]
    otxt = " ".join(mo[2]); osteps = [s.split()[0] for s in otxt.split("|")[1:-1]] if otxt.startswith("ok") else None
    di = si = oi = 0; expM = _apply_graph_requests(c)
    for i, (rq, ir) in enumerate(zip(c["reqs"], res)):
        k = rq["k"]; exp = None
        if k in ("d_lend", "d_borrow", "d_transfer", "c_set_fire"): exp = dsteps[di]; di += 1
        elif k in ("s_set", "s_update"): exp = ssteps[si]; si += 1
        elif k in ("o_set", "o_divisor", "o_reverse"):
            exp = osteps[oi] if osteps is not None else None; oi += 1
        if exp is None and rq["valid"] is not None: exp = "ok" if rq["valid"] else "err"
        if exp is not None and ir["res"] != exp:
            out.append({"what": "request #%d %s%s: implementation %s (%s), expected %s" % (i, k, rq["a"], ir["res"], ir["exc"], exp)}); break
        if ir["res"] == "err" and not ir["unchanged"]:
            out.append({"what": "request #%d %s%s was refused (%s) but changed an observable of the object / graph / divisor" % (i, k, rq["a"], ir["exc"])}); break
        if k in ("g_add_edges", "g_add_edge") and (ir["M"] != expM[i] or ir["V2"] != [sum(x) for x in expM[i]] + [sum(map(sum, expM[i])) // 2]):
            out.append({"what": "request #%d add_edges%s: adjacency afterwards %s, per-edge refusal gives %s" % (i, rq["a"], ir["M"], expM[i])}); break
    return out
def oracle(c, r):
    if r is None or "exc" in r: return {"violates": True, "why": "scenario raised"}
    expM = _apply_graph_requests(c)
    # the orientation, followed from the definitions: which edges carry a direction decides whether divisor() / reverse() may answer
    E = {(min(a, b), max(a, b)) for a, b, _ in c["G"]["edges"]}; odir = {(min(a, b), max(a, b)): 1 for a, b in c["init_o"]}
    for i, (rq, ir) in enumerate(zip(c["reqs"], r["ok"])):
        if rq["k"] == "o_set" and ir["res"] != "err" and (min(rq["a"][0], rq["a"][1]), max(rq["a"][0], rq["a"][1])) in E:
            odir[(min(rq["a"][0], rq["a"][1]), max(rq["a"][0], rq["a"][1]))] = rq["a"][2]
        if rq["k"] in ("o_divisor", "o_reverse"):
            full = all(odir.get(e, 0) != 0 for e in E)
            if (ir["res"] != "err") != full: return {"violates": True, "why": "request #%d %s answered %s although %s" % (i, rq["k"], ir["res"], "every edge is oriented" if full else "some edge carries no direction")}
    for i, (rq, ir) in enumerate(zip(c["reqs"], r["ok"])):
        if rq["valid"] is False and ir["res"] != "err": return {"violates": True, "why": "invalid request #%d %s%s returned a result" % (i, rq["k"], rq["a"])}
        if ir["res"] == "err" and not ir["unchanged"]: return {"violates": True, "why": "refused request #%d %s%s changed state" % (i, rq["k"], rq["a"])}
        if rq["k"] in ("g_add_edges", "g_add_edge") and ir["M"] != expM[i]: return {"violates": True, "why": "add_edges not refused per edge at request #%d" % i}
    return {"violates": False}
def nontrivial(cases):
    return len({str(c["reqs"]) for c in cases if sum(1 for r in c["reqs"] if r["valid"] is False) >= 5 and len({r["k"] for r in c["reqs"] if r["valid"] is False}) >= 3})
def distribution(cases):
    d = {}
    for c in cases:
        for r in c["reqs"]:
            key = r["k"] + (":invalid" if r["valid"] is False else ":valid" if r["valid"] else ":state-dependent"); d[key] = d.get(key, 0) + 1
    return {"requests_by_kind": d}
