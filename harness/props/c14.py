"""C14 Greedy solver: success carries a valid script; failure only if unwinnable or capped."""
import random, common, oracle as O
RULE = ("connected multigraphs x integer divisors: winnable with short scripts, winnable with a script of exactly / just below / just above the documented budget 10*|V| "
        "(constructed as E - L*c for an effective E and a borrow vector c with sum(c) in {10n-1, 10n, 10n+1}), unwinnable (budget exhausted), already effective; the visiting order is the "
        "set iteration order (hash seed); non-trivial = distinct (graph, divisor) that is not effective")
EXPLANATION = ("(success, script, final divisor) compared for equality with the model, whose answer does not depend on the visiting order (theorem C14_order_independent), so no order needs to be observed; "
               "the script is replayed through the implementation's own CFLaplacian.apply; the caller's divisor is snapshot before/after")
def gen(rng, tier):
    out = []
    for _ in range(260 if tier == "quick" else 6000):
        G, fam = common.random_connected_graph(rng, 1, 6, large_ok=True); n = G["n"]
        kind = rng.choice(["random", "random", "boundary", "boundary", "unwinnable", "effective"])
        if kind == "boundary" and n >= 2:
            E = [rng.randint(0, 2) for _ in range(n)]; T = 10 * n + rng.choice([-1, 0, 0, 1]); c = [0] * n
            movers = rng.sample(range(n), rng.randint(1, n - 1))
            for _ in range(T): c[rng.choice(movers)] += 1
            D = [E[v] - sum(common.matrix(G)[v][w] * (c[v] - c[w]) for w in range(n)) for v in range(n)]   # after(c) = D + L c = E
        elif kind == "unwinnable": D = common.random_divisor(rng, G, band="neg")
        elif kind == "effective": D = [rng.randint(0, 3) for _ in range(n)]
        else: D = common.random_divisor(rng, G)
        out.append({"G": G, "D": D, "kind": kind, "s": rng.randrange(1 << 30)})
    return out
def impl(c):
    from chipfiring.CFGreedyAlgorithm import GreedyAlgorithm
    from chipfiring import CFLaplacian
    rng = random.Random(c["s"]); G = c["G"]; names = G["names"]
    d = common.build_impl_divisor(G, c["D"], rng=rng); before = (common.div_to_list(G, d), d.get_total_degree())
    alg = GreedyAlgorithm(d.graph, d); ok, script = alg.play()
    out = {"ok": bool(ok), "pure": before == (common.div_to_list(G, d), d.get_total_degree()), "alias": alg.divisor is d}
    if ok:
        out["script"] = [script.get_firings(x) for x in names]; out["final"] = common.div_to_list(G, alg.divisor)
        out["replay"] = common.div_to_list(G, CFLaplacian(d.graph).apply(d, script))
    else: out["script_none"] = script is None
    # history on one solver object: hand-made borrowing moves first, then play() - repeated when the budget ran out; whenever it reports success the script
    # must turn the divisor the solver was built with into the solver's final, effective divisor
    alg2 = GreedyAlgorithm(d.graph, d); n = G["n"]; hist = []
    for _ in range(rng.randint(0, 3)): alg2.borrowing_move(names[rng.randrange(n)])
    for _ in range(3):
        ok2, s2 = alg2.play()
        if ok2:
            fin = common.div_to_list(G, alg2.divisor); rep = common.div_to_list(G, CFLaplacian(d.graph).apply(d, s2))
            hist.append(["ok", fin, rep, [s2.get_firings(x) for x in names]])
            if len(hist) >= 3 or rng.random() < 0.4: break
            alg2.borrowing_move(names[rng.randrange(n)]); continue        # a hand-made move after a success, then play() again
        hist.append(["fail", s2 is None])
    out["session"] = hist; out["pure2"] = before == (common.div_to_list(G, d), d.get_total_degree())
    return out
def model_lines(c):
    n = c["G"]["n"]; return [["greedy"] + common.enc_graph(c["G"]) + common.enc_list(list(range(n))) + common.enc_list(c["D"])]
def judge(c, r, mo):
    if "exc" in r: return [{"what": "implementation raised %s: %s" % (r["exc"], r.get("msg"))}]
    o = r["ok"]; out = []
    if not o["pure"] or o["alias"] or not o.get("pure2", True): out.append({"what": "the solver modified (or aliased) the caller's divisor"})
    for h in o.get("session", []):
        if h[0] == "ok" and (h[1] != h[2] or min(h[1]) < 0): out.append({"what": "after hand-made moves / repeated play() on one solver: success with final divisor %s but the returned script applied to the original divisor gives %s" % (h[1], h[2])})
        if h[0] == "fail" and not h[1]: out.append({"what": "play() reported failure together with a script"})
    if mo[0][0] == "fail":
        if o["ok"]: out.append({"what": "solver reports success on %s; the model exhausts the budget of 10*|V| moves" % c["D"]})
    else:
        fin, scr = " ".join(mo[0][1:]).split(";"); fin = [int(x) for x in fin.split()]; scr = [int(x) for x in scr.split()]
        if not o["ok"]: out.append({"what": "solver reports failure on %s although %d borrowing moves (<= 10*|V| = %d) win" % (c["D"], -sum(scr), 10 * c["G"]["n"])})
        else:
            if o["script"] != scr: out.append({"what": "script %s, the (order independent) greedy script is %s" % (o["script"], scr)})
            if o["final"] != fin or o["replay"] != o["final"] or min(o["final"]) < 0: out.append({"what": "final divisor %s, apply(D, script) = %s, model %s" % (o["final"], o["replay"], fin)})
    return out
def oracle(c, r):
    if r is None or "exc" in r: return {"violates": True, "why": "raised / no answer"}
    o = r["ok"]; m = O.mk(c["G"]); n = len(m); D = c["D"]; why = []
    if not o["pure"] or o.get("alias") or not o.get("pure2", True): why.append("caller's divisor modified or aliased by the solver")
    for h in o.get("session", []):
        if h[0] == "ok" and len(h) > 3 and (O.lap_apply(m, D, h[3]) != h[1] or min(h[1]) < 0): why.append("session on one solver: script %s applied to %s gives %s, the solver ended on %s" % (h[3], D, O.lap_apply(m, D, h[3]), h[1]))
        if h[0] == "fail" and not h[1]: why.append("failure reported together with a script")
    # reference greedy run (definition level): borrow at the lowest indebted vertex
    E = list(D); cnt = [0] * n; moves = 0
    while min(E) < 0 and moves < 10 * n:
        v = next(i for i in range(n) if E[i] < 0); moves += 1; cnt[v] += 1
        for w in range(n): E[w] -= m[v][w]
        E[v] += sum(m[v])
    win = min(E) >= 0
    if o["ok"]:
        exact = O.lap_apply(m, D, o["script"])
        if exact != o["final"] or min(o["final"]) < 0: why.append("script does not lead to the effective final divisor")
        if win and o["script"] != [-x for x in cnt]: why.append("script differs from the unique greedy script %s" % [-x for x in cnt])
        if not win: why.append("success reported although the budget of 10*|V| moves does not suffice")
    elif win: why.append("failure reported although D is winnable within the budget (%d moves)" % moves)
    return {"violates": bool(why), "why": why}
def nontrivial(cases): return len({str((c["G"]["edges"], c["D"])) for c in cases if min(c["D"]) < 0})
def distribution(cases):
    d = {}
    for c in cases: d[c["kind"]] = d.get(c["kind"], 0) + 1
    return {"kinds": d}
