"""C15 Save/load round-trips every object; damaged files never raise."""
import random, json, os, tempfile, common
RULE = ("graphs (incl. the empty graph, isolated vertices, multi-edges), divisors (negative, 2^70), partial and full orientations, sparse and dense scripts, with vertex names from many styles "
        "(spaces inside, digits, unicode, names equal to or starting like format keywords, names starting with F/I/R/N/G/E/D/O/V) x {dict, JSON file, TXT file}; for every written file all byte-prefix "
        "truncations and single-byte substitutions from a 12-value alphabet at every position (quick: 3 random values per position); non-trivial = distinct object with >= 2 vertices")
EXPLANATION = ("round trips compared through public getters; the TXT text written by the implementation must equal the model writer's text and every damaged TXT file must parse to exactly what the model reader "
               "returns (None or the same object; theorem C15_read_total_*: the model reader is total and only returns well-formed objects); damaged JSON files must give None or an object passing the "
               "well-formedness invariants of C13/C12/C11, every proper prefix must give None")
NAMES = [["A", "B", "C", "D", "E"], ["v0", "v1", "v2", "v3", "v4"], ["Alice", "Bob", "Charlie", "Dave", "Elise"], ["Gina", "Ian", "N", "R2", "Fred"], ["an", "Ian", "2", "R2", "ed"],
         ["EDGE", "VERTICES", "GRAPH", "DEGREE", "FIRING"], ["a b", "x.y", "p-q", "q_r", "z#1"], ["é", "ß", "日本", "ñandú", "Ω"], ["10", "9", "08", "7", "-6"], ["ORIENTED", "O", "D", "V", "G"],
         ["'q'", "\"d\"", "{", "[x]", "\\"], ["a b", "c d", "e\x0bf", "g h", "i\x1cj"],
         ["", " ", "x", "\t", "  "]]      # empty / blank names: dictionaries and JSON hold them, the TXT format does not (its round trip is then not asked)
TXT_ALPHA = [b"\n", b" ", b",", b":", b"-", b"0", b"7", b"A", b"_", b"\r", b"\xff", b"\t"]
JSON_ALPHA = [b'"', b",", b":", b"{", b"]", b"0", b"7", b"-", b"e", b".", b" ", b"\xff"]
KINDS = ["graph", "divisor", "firingscript", "orientation"]
def gen(rng, tier):
    out = []
    for i in range(2 * len(NAMES) if tier == "quick" else 400):
        n = rng.choice([0, 1, 2, 3, 3, 4, 5]) if i >= 2 * len(NAMES) or i % 2 else rng.choice([3, 4, 5])
        names = sorted(NAMES[i % len(NAMES)][:n])       # every name style is used, with >= 3 vertices at least once
        edges = [[a, b, rng.choice([1, 1, 2, 13])] for a in range(n) for b in range(a + 1, n) if rng.random() < 0.6 or names[a].lower() == names[b].lower()]
        G = {"n": n, "names": names, "edges": edges}; kind = KINDS[i % 4]
        D = [rng.choice([0, 1, -1, 5, -12, 2 ** 70, -2 ** 64, 2 ** 53 + 1, 10 ** 18 + 1, -(2 ** 64 - 1), 10 ** 23 + 7]) for _ in range(n)]     # incl. integers no double represents
        ori = [[a, b] if rng.random() < 0.5 else [b, a] for a, b, _ in edges if rng.random() < 0.7]
        out.append({"G": G, "kind": kind, "D": D, "ori": ori, "s": rng.randrange(1 << 30), "per_pos": 3 if tier == "quick" else 12})
    return out
def _canon(G0, kind, obj):
    """observational form through public getters: sorted names, matrix, payload"""
    from chipfiring.CFGraph import Vertex
    g = obj if kind == "graph" else obj.graph
    names = sorted(v.name for v in g.vertices); V = [Vertex(x) for x in names]
    M = [[g.graph[a].get(b, 0) for b in V] for a in V]
    wf = all(type(x) is int and x >= 0 for r in M for x in r) and all(M[i][j] == M[j][i] for i in range(len(V)) for j in range(len(V))) and all(M[i][i] == 0 for i in range(len(V))) \
        and [g.get_valence(x) for x in names] == [sum(r) for r in M] and g.total_valence * 2 == sum(map(sum, M)) and sorted(v.name for v in g.graph) == names
    if kind == "graph": pay = None
    elif kind == "divisor":
        pay = [obj.get_degree(x) for x in names]; wf = wf and all(type(x) is int for x in pay) and obj.get_total_degree() == sum(pay) and sorted(v.name for v in obj.degrees) == names
    elif kind == "firingscript":
        pay = [obj.get_firings(x) for x in names]; wf = wf and all(type(x) is int for x in pay)
    else:
        pay = [[0] * len(V) for _ in V]
        for i, a in enumerate(names):
            for j, b in enumerate(names):
                if M[i][j] > 0:
                    r = obj.get_orientation(a, b); pay[i][j] = 0 if r is None else (1 if r == (a, b) else 2)
        inc = [sum(M[v][w] for w in range(len(V)) if M[v][w] and pay[w][v] == 1) for v in range(len(V))]
        wf = wf and inc == [obj.get_in_degree(x) for x in names] and all(pay[j][i] == {0: 0, 1: 2, 2: 1}[pay[i][j]] for i in range(len(V)) for j in range(len(V)) if M[i][j])
    return {"names": names, "M": M, "pay": pay, "wf": bool(wf)}
def _enc_str(s): return [len(s)] + [ord(ch) for ch in s]
def _parse_model(tok, kind):
    if tok[0] == "none": return None
    i = 1; n = int(tok[i]); i += 1; names = []
    for _ in range(n):
        k = int(tok[i]); i += 1; names.append("".join(chr(int(x)) for x in tok[i:i + k])); i += k
    M = [[int(x) for x in tok[i + r * n:i + (r + 1) * n]] for r in range(n)]; i += n * n
    assert tok[i] == ";"; i += 1; rest = [int(x) for x in tok[i:]]
    pay = None if kind == "graph" else ([rest[r * n:(r + 1) * n] for r in range(n)] if kind == "orientation" else rest)
    return {"names": names, "M": M, "pay": pay}
def impl(c):
    from chipfiring import CFGraph, CFDivisor, CFOrientation, CFiringScript, CFDataProcessor
    rng = random.Random(c["s"]); G = c["G"]; names = G["names"]; kind = c["kind"]; n = G["n"]; kidx = KINDS.index(kind)
    g = common.build_impl_graph(G, rng)
    obj = {"graph": lambda: g, "divisor": lambda: CFDivisor(g, [(names[i], c["D"][i]) for i in range(n)]),
           "firingscript": lambda: CFiringScript(g, {names[i]: c["D"][i] for i in range(n) if c["D"][i] != 0 or rng.random() < 0.3}),
           "orientation": lambda: CFOrientation(g, [(names[a], names[b]) for a, b in c["ori"]])}[kind]()
    cls = {"graph": CFGraph, "divisor": CFDivisor, "firingscript": CFiringScript, "orientation": CFOrientation}[kind]
    orig = _canon(G, kind, obj); orig_nw = {k: v for k, v in orig.items() if k != "wf"}
    out = {"anomalies": [], "counts": {"txt_damaged": 0, "json_damaged": 0, "json_prefixes": 0, "txt_prefixes": 0, "undecodable": 0, "txt_none": 0, "txt_obj": 0, "json_none": 0, "json_obj": 0}}
    A = out["anomalies"]
    def strip(cn): return None if cn is None else {k: v for k, v in cn.items() if k != "wf"}
    # 1. dict
    back = cls.from_dict(json.loads(json.dumps(obj.to_dict())))
    if strip(_canon(G, kind, back)) != orig_nw: A.append("dict round trip differs: %s" % (strip(_canon(G, kind, back)),))
    # 1b. the dictionary itself: content = the model's dictionary form (C15_dict_*), and from_dict on well-typed but invalid variants = the model's from_dict
    try:
        dct = obj.to_dict(); gd = dct if kind == "graph" else dct["graph"]
        wl = ["dictwrite", kidx] + common.enc_graph(G) + (([len(c["ori"])] + [x for p in c["ori"] for x in p]) if kind == "orientation" else [])
        mw = [int(x) for x in common.run_model([wl])[0]]; ne = mw[0]; el = [mw[1 + 3 * i:4 + 3 * i] for i in range(ne)]
        exp_g = {"vertices": list(names), "edges": [[names[a], names[b], k] for a, b, k in el]}
        if gd != exp_g: A.append("to_dict graph part %s differs from the model's dictionary form %s" % (gd, exp_g))
        if kind == "divisor" and dct["degrees"] != {names[i]: c["D"][i] for i in range(n)}: A.append("to_dict degrees %s" % (dct["degrees"],))
        if kind == "firingscript" and {k: v for k, v in dct["script"].items() if v != 0} != {names[i]: c["D"][i] for i in range(n) if c["D"][i] != 0}: A.append("to_dict script %s" % (dct["script"],))
        if kind == "orientation":
            rest = mw[1 + 3 * ne:]; ps = [[names[rest[1 + 2 * i]], names[rest[2 + 2 * i]]] for i in range(rest[0])]
            if [list(p) for p in dct["orientations"]] != ps: A.append("to_dict orientations %s differ from the model's %s" % (dct["orientations"], ps))
        # invalid variants (still well-typed): unknown endpoint, loop, non-positive multiplicity, repeated pair (merges), vertex dropped, payload on unknown / repeated / non-edge
        import copy
        variants = []
        for _ in range(6):
            v = copy.deepcopy(dct); g2 = v if kind == "graph" else v["graph"]; how = rng.choice(["unknown", "loop", "mult", "repeat", "dropv", "payload", "payload", "none"])
            if how == "unknown" and g2["edges"]: g2["edges"][rng.randrange(len(g2["edges"]))][rng.randrange(2)] = "zz_unknown"
            elif how == "loop" and g2["edges"]: e = g2["edges"][rng.randrange(len(g2["edges"]))]; e[1] = e[0]
            elif how == "mult" and g2["edges"]: g2["edges"][rng.randrange(len(g2["edges"]))][2] = rng.choice([0, -1, 2 ** 66])
            elif how == "repeat" and g2["edges"]: e = list(rng.choice(g2["edges"])); g2["edges"].append([e[1], e[0], 3])
            elif how == "dropv" and g2["vertices"]: g2["vertices"].pop(rng.randrange(len(g2["vertices"])))
            elif how == "payload":
                if kind == "divisor" and n: v["degrees"]["zz_unknown"] = 1
                elif kind == "firingscript" and n: v["script"][rng.choice(["zz_unknown", names[0]])] = 4
                elif kind == "orientation":
                    k2 = rng.choice(["dup", "rev", "nonedge", "unknown"])
                    if k2 == "dup" and v["orientations"]: v["orientations"].append(list(v["orientations"][0]))
                    elif k2 == "rev" and v["orientations"]: v["orientations"].append(list(v["orientations"][0])[::-1])
                    elif k2 == "unknown": v["orientations"].append([names[0] if n else "x", "zz_unknown"])
                    elif n >= 2: v["orientations"].append([names[0], names[-1]])
            variants.append(v)
        lines = []; got = []
        for v in variants:
            g2 = v if kind == "graph" else v["graph"]
            tok = ["dictread", kidx, len(g2["vertices"])] + [x for nm in g2["vertices"] for x in _enc_str(nm)] + [len(g2["edges"])] + [x for e in g2["edges"] for x in _enc_str(e[0]) + _enc_str(e[1]) + [e[2]]]
            if kind == "divisor": tok += [len(v["degrees"])] + [x for k2, z in v["degrees"].items() for x in _enc_str(k2) + [z]]
            elif kind == "firingscript": tok += [len(v["script"])] + [x for k2, z in v["script"].items() for x in _enc_str(k2) + [z]]
            elif kind == "orientation": tok += [len(v["orientations"])] + [x for p in v["orientations"] for x in _enc_str(p[0]) + _enc_str(p[1])]
            lines.append(tok)
            try: r2 = cls.from_dict(copy.deepcopy(v)); got.append(strip(_canon(G, kind, r2)))
            except Exception: got.append(None)
        for v, gt, m in zip(variants, got, common.run_model(lines)):
            mp = _parse_model(m, kind)
            if mp != gt: A.append("from_dict(%s): implementation %s, model %s" % (json.dumps(v)[:200], gt, mp))
    except Exception as e: A.append("dictionary-form scenario raised %s: %s" % (type(e).__name__, str(e)[:120]))
    dp = CFDataProcessor()
    with tempfile.TemporaryDirectory() as td:
        pj, pt = os.path.join(td, "o.json"), os.path.join(td, "o.txt")
        dp.to_json(obj, pj); dp.to_txt(obj, pt)
        bj = dp.read_json(pj, kind); bt = dp.read_txt(pt, kind)
        if bj is None or strip(_canon(G, kind, bj)) != orig_nw: A.append("JSON round trip differs: %s" % (None if bj is None else strip(_canon(G, kind, bj)),))
        names_ok = all(x for x in common.run_model([["nameok"] + _enc_str(nm) for nm in names])) and all(t[0] == "1" for t in common.run_model([["nameok"] + _enc_str(nm) for nm in names])) if names else True
        if names_ok and (bt is None or strip(_canon(G, kind, bt)) != orig_nw): A.append("TXT round trip differs: %s" % (None if bt is None else strip(_canon(G, kind, bt)),))
        if strip(_canon(G, kind, obj)) != orig_nw: A.append("writing changed the object")
        # object-type argument: any letter case names the same reader; an unknown type is answered with None, not with an exception
        try:
            bu = dp.read_json(pj, kind.upper()); bv = dp.read_txt(pt, kind.capitalize())
            if bu is None or strip(_canon(G, kind, bu)) != orig_nw or (names_ok and (bv is None or strip(_canon(G, kind, bv)) != orig_nw)): A.append("round trip with the object type spelled in another letter case differs")
            if dp.read_json(pj, "nonsense") is not None or dp.read_txt(pt, "nonsense") is not None: A.append("an unknown object type gave an object")
        except BaseException as e: A.append("reading with an unusual object-type argument raised %s" % type(e).__name__)
        raw_t = open(pt, "rb").read(); raw_j = open(pj, "rb").read()
        # model writer
        M = common.matrix(G); wl = ["txtwrite", kidx, n] + [x for nm in names for x in _enc_str(nm)] + common.enc_graph(G)
        if kind in ("divisor", "firingscript"): wl += common.enc_list(orig["pay"])
        if kind == "orientation": wl += [len(c["ori"])] + [x for p in c["ori"] for x in p]
        mw = common.run_model([wl])[0]
        mtext = "".join(chr(int(x)) for x in mw[1:]) if mw and mw[0] != "err" else None
        if mtext is None or mtext.encode("utf-8") != raw_t: A.append("TXT text written by the implementation differs from the model writer: %r vs %r" % (raw_t[:200], mtext))
        # 2. damaged TXT files: parse must equal the model's parse
        def damaged(raw, alpha):
            for k in range(len(raw)): yield ("prefix", k, raw[:k])
            for pos in range(len(raw)):
                for b in (alpha if c["per_pos"] >= len(alpha) else rng.sample(alpha, c["per_pos"])):
                    if raw[pos:pos + 1] != b: yield ("subst", pos, raw[:pos] + b + raw[pos + 1:])
        texts = []; results = []
        for what, pos, data in damaged(raw_t, TXT_ALPHA):
            out["counts"]["txt_damaged"] += 1; out["counts"]["txt_prefixes"] += what == "prefix"
            open(pt, "wb").write(data)
            try: r = dp.read_txt(pt, kind)
            except BaseException as e: A.append("read_txt raised %s on %s at %d: %r" % (type(e).__name__, what, pos, data[:120])); continue
            try: cn = None if r is None else _canon(G, kind, r)
            except BaseException as e: A.append("read_txt returned an object whose getters raise (%s) on %s at %d: %r" % (type(e).__name__, what, pos, data[:120])); continue
            if cn is not None and not cn["wf"]: A.append("read_txt returned an ill-formed object on %s at %d: %r" % (what, pos, data[:120]))
            out["counts"]["txt_none" if cn is None else "txt_obj"] += 1
            try: txt = data.decode("utf-8")
            except UnicodeDecodeError:
                out["counts"]["undecodable"] += 1
                if r is not None: A.append("undecodable file parsed to an object")
                continue
            if "\x00" in txt and False: continue
            texts.append(txt); results.append((what, pos, strip(cn)))
        mo = common.run_model([["txtread", kidx] + _enc_str(t) for t in texts]) if texts else []
        for t, (what, pos, cn), m in zip(texts, results, mo):
            mp = _parse_model(m, kind)
            if mp != cn and not any(ord(ch) > 127 and ch.isdigit() for ch in t):
                A.append("damaged TXT (%s at %d) %r: implementation %s, model reader %s" % (what, pos, t[:160], cn, mp))
        # 3. damaged JSON files
        for what, pos, data in damaged(raw_j, JSON_ALPHA):
            out["counts"]["json_damaged"] += 1; out["counts"]["json_prefixes"] += what == "prefix"
            open(pj, "wb").write(data)
            try: r = dp.read_json(pj, kind)
            except BaseException as e: A.append("read_json raised %s on %s at %d: %r" % (type(e).__name__, what, pos, data[:120])); continue
            if what == "prefix" and r is not None: A.append("a proper truncation of the JSON file (first %d bytes) was accepted" % pos)
            try: cn = None if r is None else _canon(G, kind, r)
            except BaseException as e: A.append("read_json returned an object whose getters raise (%s) on %s at %d: %r" % (type(e).__name__, what, pos, data[max(0, pos - 30):pos + 30])); continue
            if cn is not None and not cn["wf"]: A.append("read_json returned an ill-formed object (non-integer or inconsistent) on %s at %d: ...%r..." % (what, pos, data[max(0, pos - 30):pos + 30]))
            out["counts"]["json_none" if cn is None else "json_obj"] += 1
        # 4. history: the object that has just been saved is modified in place and saved again - every format must show the object as it is NOW
        try:
            from chipfiring.CFOrientation import OrientationState
            from chipfiring.CFGraph import Vertex
            if kind == "graph" and n >= 2:
                if G["edges"]: a, b, _ = G["edges"][0]; obj.add_edge(names[b], names[a], 2)
                non = [(a, b) for a in range(n) for b in range(a + 1, n) if not any(e[0] == a and e[1] == b for e in G["edges"])]
                if non: obj.add_edge(names[non[0][0]], names[non[0][1]], 1)
            elif kind == "divisor" and n >= 1:
                obj.lending_move(names[0]); obj.chip_transfer(names[0], names[-1], 3) if n >= 2 else None
            elif kind == "firingscript" and n >= 1:
                obj.set_firings(names[0], obj.get_firings(names[0]) + 5); obj.update_firings(names[-1], -2)
            elif kind == "orientation" and c["ori"]:
                a, b = c["ori"][0]; obj.set_orientation(Vertex(names[a]), Vertex(names[b]), OrientationState.SINK_TO_SOURCE)      # flip an oriented edge
                if len(c["ori"]) > 1: a, b = c["ori"][1]; obj.set_orientation(Vertex(names[b]), Vertex(names[a]), OrientationState.SOURCE_TO_SINK)
                if len(c["ori"]) > 2: a, b = c["ori"][2]; obj.set_orientation(Vertex(names[a]), Vertex(names[b]), OrientationState.NO_ORIENTATION)
            now = strip(_canon(G, kind, obj))
            b2 = cls.from_dict(json.loads(json.dumps(obj.to_dict())))
            if strip(_canon(G, kind, b2)) != now: A.append("dict round trip after an in-place modification shows a stale object: %s, the object is %s" % (strip(_canon(G, kind, b2)), now))
            pj2, pt2 = os.path.join(td, "o2.json"), os.path.join(td, "o2.txt")
            dp.to_json(obj, pj2); dp.to_txt(obj, pt2); bj2 = dp.read_json(pj2, kind); bt2 = dp.read_txt(pt2, kind)
            if bj2 is None or strip(_canon(G, kind, bj2)) != now: A.append("JSON round trip after an in-place modification differs: %s, the object is %s" % (None if bj2 is None else strip(_canon(G, kind, bj2)), now))
            if names_ok and (bt2 is None or strip(_canon(G, kind, bt2)) != now): A.append("TXT round trip after an in-place modification differs: %s, the object is %s" % (None if bt2 is None else strip(_canon(G, kind, bt2)), now))
        except Exception as e: A.append("save / modify / save history raised %s: %s" % (type(e).__name__, str(e)[:100]))
        # missing file
        for f, k in ((dp.read_json, "j"), (dp.read_txt, "t")):
            try:
                if f(os.path.join(td, "missing"), kind) is not None: A.append("missing file gave an object")
            except BaseException as e: A.append("missing file raised %s" % type(e).__name__)
    out["anomalies"] = A[:6]; out["n_anomalies"] = len(A)
    return out
def model_lines(c): return [["info"] + common.enc_graph(c["G"])] if c["G"]["n"] else [["nameok", 0]]
def judge(c, r, mo):
    if "exc" in r: return [{"what": "harness scenario raised %s: %s %s" % (r["exc"], r.get("msg"), r.get("tb", "")[-300:])}]
    c["_counts"] = r["ok"]["counts"]
    return [{"what": a} for a in r["ok"]["anomalies"][:3]]
def oracle(c, r):
    if r is None or "exc" in r: return {"violates": True, "why": "scenario raised"}
    bad = [a for a in r["ok"]["anomalies"] if "raised" in a or "round trip" in a or "ill-formed" in a or "truncation" in a or "changed the object" in a]
    return {"violates": bool(bad), "why": bad[:3], "note": "differences between the implementation's parse of a damaged TXT file and the model reader's are correspondence failures, not necessarily property violations"}
def nontrivial(cases): return len({str((c["G"], c["kind"], c["D"], c["ori"])) for c in cases if c["G"]["n"] >= 2})
def distribution(cases):
    d = {"by_kind": {}, "damaged_files": {}}
    for c in cases:
        d["by_kind"][c["kind"]] = d["by_kind"].get(c["kind"], 0) + 1
        for k, v in c.get("_counts", {}).items(): d["damaged_files"][k] = d["damaged_files"].get(k, 0) + v
    return d
ENV = {"CF_CASE_TIMEOUT": "600"}
