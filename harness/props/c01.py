"""C01 Winnability verdicts are exact: EWD (plain / optimized, visualize on / off) and is_winnable vs the verified ewd."""
import random, common, oracle
RULE = ("connected multigraphs (families path/cycle/star/complete/wheel/barbell/ladder/tree/G(n,p)/multi-edge, random relabelling, "
        "random vertex names) x divisors stratified by #indebted vertices, ties for the minimum and degree band (<0, 0..g-1, g..2g-2, >2g-2); "
        "thorough adds every multigraph on <=3 vertices with multiplicities <=2 x every divisor in a box. "
        "Non-trivial = distinct (graph, divisor) with at least one vertex in debt and total degree >= 0.")
EXPLANATION = "verdicts of EWD(plain), EWD(optimized), EWD(visualize=True) and is_winnable compared for equality with the model's ewd, whose exactness is theorem C01_exact"

def gen(rng, tier):
    cases = []
    N = 400 if tier == "quick" else 6000
    for _ in range(N):
        G, fam = common.random_connected_graph(rng, 1, 6 if tier == "quick" else 8, large_ok=True)
        D = common.random_divisor(rng, G)
        if rng.random() < 0.12: G, D = common.thin_cut_game(rng); fam = "thincut"
        if rng.random() < 0.12 and G["edges"]:
            G, D = common.scale_game(rng, G, D); fam = fam + "*2^k"
        c = {"G": G, "D": D, "fam": fam, "s": rng.randrange(1 << 30)}
        if rng.random() < 0.2:                          # the divisor asked about is the RESULT of divisor arithmetic (k*E, A+B, A-B, -E), not a constructor call
            how = rng.choice(["mul", "mul", "add", "sub", "neg"]); A = common.random_divisor(rng, G)
            if how == "mul":
                k = rng.choice([-1, -1, 0, 2, -2, 3]); c["D"] = D = [k * x for x in A]; c["via"] = ["mul", k, A]
            elif how == "add": c["via"] = ["add", A, [x - y for x, y in zip(D, A)]]
            elif how == "sub": c["via"] = ["sub", A, [y - x for x, y in zip(D, A)]]
            else: c["via"] = ["neg", [-x for x in D]]
        if G["n"] >= 2 and rng.random() < 0.25:       # history on ONE divisor object: asked, moved to another class by a chip transfer, asked again
            a, b = rng.sample(range(G["n"]), 2); c["move"] = [a, b, rng.randint(1, 3)]
        cases.append(c)
    # further families are APPENDED (own generator state), so that extending them never shifts the random stream of the cases above
    r2 = random.Random(rng.randrange(1 << 30))
    for _ in range(70 if tier == "quick" else 700):       # mid-size multigraphs: rules that switch once 'most of the graph' has burnt
        G = common.midsize_multigraph(r2); cases.append({"G": G, "D": common.random_divisor(r2, G), "fam": "midsize", "s": r2.randrange(1 << 30)})
    for _ in range(50 if tier == "quick" else 500):       # a small effective divisor pushed across a thin cut by firing one side: winnable, in debt, with fewer chips in circulation than the smallest valence
        G, D = common.cut_transfer_game(r2); cases.append({"G": G, "D": D, "fam": "cuttransfer", "s": r2.randrange(1 << 30)})
    if tier == "thorough":
        import itertools
        for n in (2, 3):
            pairs = [(i, j) for i in range(n) for j in range(i + 1, n)]
            for mults in itertools.product(range(3), repeat=len(pairs)):
                G = common.mk_graph(n, [(a, b, k) for (a, b), k in zip(pairs, mults) if k], None, 0)
                if not common.is_connected(G): continue
                for D in itertools.product(range(-3, 5), repeat=n):
                    cases.append({"G": G, "D": list(D), "fam": "exhaustive", "s": 0})
    return cases

def impl(c):
    from chipfiring import EWD, is_winnable
    rng = random.Random(c["s"]); G = c["G"]
    out = {}
    def mk():
        via = c.get("via")
        if not via: return common.build_impl_divisor(G, c["D"], rng=rng)
        a = common.build_impl_divisor(G, via[-2] if via[0] in ("add", "sub") else via[-1], rng=rng)
        if via[0] == "mul": r = via[1] * a
        elif via[0] == "neg": r = -a
        else:
            b = common.build_impl_divisor(G, via[-1], graph=a.graph, rng=rng); r = a + b if via[0] == "add" else a - b
        assert common.div_to_list(G, r) == c["D"], "harness: arithmetic did not produce the intended divisor (C12 reports that)"
        return r
    for key, kw in (("plain", {}), ("opt", {"optimized": True}), ("plain_vis", {"visualize": True}), ("opt_vis", {"optimized": True, "visualize": True})):
        d = mk()
        out[key] = bool(EWD(d.graph, d, **kw)[0])
    d = mk()
    out["isw"] = bool(is_winnable(d))
    if c.get("move"):
        names = G["names"]; a, b, k = c["move"]
        e = common.build_impl_divisor(G, c["D"], rng=rng); EWD(e.graph, e); EWD(e.graph, e, optimized=True); is_winnable(e)      # every mode has seen this object
        now = common.div_to_list(G, e); e.chip_transfer(names[a], names[b], k)
        out["D2"] = common.div_to_list(G, e); out["moved_ok"] = out["D2"] == [x - k * (i == a) + k * (i == b) for i, x in enumerate(now)]
        out["isw2"] = bool(is_winnable(e)); f = common.build_impl_divisor(G, out["D2"], graph=e.graph, rng=rng); f2 = common.build_impl_divisor(G, out["D2"], graph=e.graph, rng=rng)
        out["opt2"] = bool(EWD(e.graph, e, optimized=True)[0]); out["plain2"] = bool(EWD(e.graph, e)[0]); out["fresh2"] = [bool(is_winnable(f)), bool(EWD(f2.graph, f2)[0])]
    return out

TWO_STAGE = True
def model_lines(c, r=None):
    ls = [["ewd"] + common.enc_graph(c["G"]) + common.enc_list(c["D"]) + [0], ["ewd"] + common.enc_graph(c["G"]) + common.enc_list(c["D"]) + [1]]
    if r and "ok" in r and isinstance(r["ok"].get("D2"), list): ls.append(["ewd"] + common.enc_graph(c["G"]) + common.enc_list(r["ok"]["D2"]) + [0])
    return ls

def judge(c, r, mo):
    if "exc" in r:
        return [{"what": "implementation raised %s (%s) on a connected multigraph" % (r["exc"], r.get("msg")), "obligation": "C01 (termination / no error)"}]
    if mo[0][0] == "FUEL" or mo[1][0] == "FUEL": return []
    mp, mopt = mo[0][0] == "1", mo[1][0] == "1"
    out = []
    for k, want in (("plain", mp), ("plain_vis", mp), ("opt", mopt), ("opt_vis", mopt), ("isw", mopt)):
        if r["ok"][k] != want:
            out.append({"what": "verdict %s=%s but the verified model says %s" % (k, r["ok"][k], want)})
    if "D2" in r["ok"] and len(mo) > 2 and mo[2][0] != "FUEL" and not out:
        o = r["ok"]; w2 = mo[2][0] == "1"
        if not o["moved_ok"]: out.append({"what": "chip_transfer on a divisor that had been analysed did not move the chips as requested"})
        for k in ("isw2", "opt2", "plain2"):
            if o[k] != w2: out.append({"what": "the same divisor object asked again after chip_transfer%s (now %s): %s=%s, the verified model says %s" % (tuple(c["move"]), o["D2"], k, o[k], w2)})
        if o["fresh2"] != [w2, w2]: out.append({"what": "fresh divisor %s: verdicts %s, model %s" % (o["D2"], o["fresh2"], w2)})
    return out[:1]

def oracle(c, r):
    m = oracle_mod.mk(c["G"]); truth = oracle_mod.winnable(m, c["D"])
    if r is None or "exc" in r:
        return {"violates": True, "why": "call did not return a verdict (%s); true winnability is %s" % (r, truth)}
    bad = {k: v for k, v in r["ok"].items() if k in ("plain", "opt", "plain_vis", "opt_vis", "isw") and v != truth}
    if not bad and isinstance(r["ok"].get("D2"), list):
        t2 = oracle_mod.winnable(m, r["ok"]["D2"]); bad = {k: r["ok"][k] for k in ("isw2", "opt2", "plain2") if r["ok"][k] != t2}
        if bad: return {"violates": True, "truth_winnable_after_move": t2, "wrong": bad}
    return {"violates": bool(bad), "truth_winnable": truth, "wrong": bad}
import oracle as oracle_mod

def nontrivial(cases):
    return len({(str(c["G"]["edges"]), str(c["D"])) for c in cases if min(c["D"]) < 0 <= sum(c["D"])})
def distribution(cases):
    d = {"by_family": {}, "by_n": {}, "by_band": {"deg<0": 0, "0..g-1": 0, "g..2g-2": 0, ">2g-2": 0}, "indebted_vertices": {}, "tie_for_min": 0}
    for c in cases:
        g = common.genus(c["G"]); s = sum(c["D"])
        d["by_family"][c["fam"]] = d["by_family"].get(c["fam"], 0) + 1
        d["by_n"][c["G"]["n"]] = d["by_n"].get(c["G"]["n"], 0) + 1
        b = "deg<0" if s < 0 else "0..g-1" if s < g else "g..2g-2" if s <= 2 * g - 2 else ">2g-2"
        d["by_band"][b] += 1
        k = sum(1 for x in c["D"] if x < 0); d["indebted_vertices"][k] = d["indebted_vertices"].get(k, 0) + 1
        d["tie_for_min"] += c["D"].count(min(c["D"])) > 1
    return d
common.add_growth(globals())
