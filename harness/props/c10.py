"""C10 Legal set-firings, superstables and parking functions match their definitions."""
import random, itertools, common, oracle as O
from fractions import Fraction
RULE = ("multigraphs x sinks x configurations (below and above the valence box, zero-chip vertices not adjacent to q, negative entries) x subsets S (all sizes, incl. empty, with q, with unknown names); "
        "pairs of configurations for the order operators (comparable, incomparable, different q); integer sequences of length 0..6 with optional explicit n for the parking predicate; n <= 6 for the generator; "
        "small graphs for the spanning-tree count; non-trivial = distinct case of kind legal/superstable with a non-empty valid S or a non-negative configuration")
EXPLANATION = ("is_legal_set_firing, is_superstable, get_out_degree_S, the comparison operators, is_parking_function, generate_parking_functions and parking_function_count are compared for equality with the model "
               "(theorems C10_*); the number of configurations the implementation reports superstable is compared with the exact determinant of its own reduced Laplacian")
def gen(rng, tier):
    out = []
    for _ in range(260 if tier == "quick" else 5000):
        kind = rng.choice(["legal", "legal", "sstable", "sstable", "order", "order", "order", "parking", "parking", "count"])
        c = {"kind": kind, "s": rng.randrange(1 << 30)}
        if kind in ("legal", "sstable", "order", "count"):
            G, fam = common.random_connected_graph(rng, 2, 5 if kind != "count" else 4)
            if rng.random() < 0.15: G = common.add_isolated(rng, G, 1)        # disconnected: a vertex no edge leaves (every set of such vertices is legal to fire)
            n = G["n"]; q = rng.randrange(n); M = common.matrix(G)
            if kind == "count" and max(sum(r) for r in M) > 6: kind = c["kind"] = "sstable"
            D = [rng.randint(0, max(1, sum(M[v]))) if rng.random() < 0.85 else rng.randint(-2, sum(M[v]) + 2) for v in range(n)]
            if rng.random() < 0.5: D = [0 if rng.random() < 0.4 else x for x in D]
            if kind == "sstable" and rng.random() < 0.25:       # debt inside V - {q} while q is poorer still (or ties with the poorest): never superstable, whatever q holds
                D = [rng.randint(0, 1) for _ in range(n)]; D[rng.choice([v for v in range(n) if v != q])] = -rng.randint(1, 3); D[q] = min(D) - rng.choice([0, 1, 3])
            c.update({"G": G, "q": q, "D": D})
            if kind == "legal":
                S = rng.sample(range(n), rng.randint(0, n))
                r = rng.random()
                if r < 0.6: S = [v for v in S if v != q]
                elif r < 0.7: S.insert(rng.randint(0, len(S)), n + 1)
                c["S"] = S
            if kind == "order":
                # the relation between the two configurations is drawn explicitly: equal, below, above, incomparable - and, half of the time, the
                # chips AT q differ as well (the order looks at V - {q} only)
                E = list(D); others = [v for v in range(n) if v != q]; rel = rng.choice(["eq", "lt", "gt", "inc", "rand"])
                if rel == "lt" and others:
                    for v in rng.sample(others, rng.randint(1, len(others))): E[v] += rng.randint(1, 2)
                elif rel == "gt" and others:
                    for v in rng.sample(others, rng.randint(1, len(others))): E[v] -= rng.randint(1, 2)
                elif rel == "inc" and len(others) >= 2:
                    a, b = rng.sample(others, 2); E[a] += rng.randint(1, 2); E[b] -= rng.randint(1, 2)
                elif rel == "rand":
                    for _ in range(rng.randint(0, 2)): E[rng.randrange(n)] += rng.choice([-1, 1, 1])
                if rng.random() < (0.8 if rel == "eq" else 0.4): E[q] += rng.choice([-2, -1, 1, 3])
                if n >= 2 and rng.random() < 0.5: a_, b_ = rng.sample(range(n), 2); c["mv"] = [a_, b_, rng.randint(1, 3)]
                c.update({"E": E, "q2": q if rng.random() < 0.8 else (q + 1) % n, "other": rng.choice([None, None, None, None, None, "mult", "edge", "vset"]) if n >= 2 else None})
        elif kind == "parking":
            n = rng.randint(0, 6); a = [rng.randint(0 if rng.random() < 0.2 else 1, n + (1 if rng.random() < 0.2 else 0)) for _ in range(n)]
            if rng.random() < 0.5 and n: a = sorted(rng.randint(1, i + 1) for i in range(n)); rng.shuffle(a)
            c.update({"a": a, "n": rng.choice([None, None, n, n + 1, max(0, n - 1)]), "gen": rng.choice([0, 1, 2, 3, 4, 5] + ([6] if tier == "thorough" else []))})
        out.append(c)
    return out
def _det(M):
    n = len(M); M = [[Fraction(x) for x in r] for r in M]; d = Fraction(1)
    for i in range(n):
        p = next((r for r in range(i, n) if M[r][i] != 0), None)
        if p is None: return 0
        if p != i: M[i], M[p] = M[p], M[i]; d = -d
        d *= M[i][i]
        for r in range(i + 1, n):
            f = M[r][i] / M[i][i]
            for k in range(i, n): M[r][k] -= f * M[i][k]
    return int(d)
def impl(c):
    from chipfiring.CFConfig import CFConfig
    from chipfiring import CFLaplacian
    from chipfiring.CFGraph import Vertex
    from chipfiring.CFCombinatorics import is_parking_function, generate_parking_functions, parking_function_count
    rng = random.Random(c["s"]); k = c["kind"]
    if k == "parking":
        a = c["a"]; out = {"is": bool(is_parking_function(list(a), c["n"]) if c["n"] is not None else is_parking_function(list(a))), "a_unchanged": True}
        g = generate_parking_functions(c["gen"]); out["gen"] = sorted(list(x) for x in g); out["gen_len"] = len(g); out["count"] = parking_function_count(c["gen"])
        # history: the caller edits the returned list in place (shifting each sequence down by one to compare with superstables of K_(n+1), dropping one), then asks again
        for seq in g:
            if isinstance(seq, list):
                for i in range(len(seq)): seq[i] -= 1
        if isinstance(g, list) and g: g.pop()
        g2 = generate_parking_functions(c["gen"]); out["gen_again"] = sorted(list(x) for x in g2)
        return out
    G = c["G"]; names = G["names"]; ext = names + ["zz_u0", "zz_u1"]; n = G["n"]
    d = common.build_impl_divisor(G, c["D"], rng=rng); cfg = CFConfig(d, names[c["q"]]); before = common.div_to_list(G, d)
    out = {}
    if k == "legal":
        try: out["legal"] = ["ok", bool(cfg.is_legal_set_firing({ext[v] for v in c["S"]}))]
        except ValueError: out["legal"] = ["err"]
        S = [v for v in c["S"] if v < n and v != c["q"]]
        if S: out["outdeg"] = [cfg.get_out_degree_S(names[v], {names[x] for x in S}) for v in S]
    elif k == "sstable": out["ss"] = bool(cfg.is_superstable())
    elif k == "order":
        G2 = c["G"]; E2 = c["E"]
        if c.get("other") == "mult" and G["edges"]:
            G2 = common.mk_graph_like(G, [list(x) for x in G["edges"]] + [[G["edges"][0][0], G["edges"][0][1], 1]])
        elif c.get("other") == "edge":
            non = [(a, b) for a in range(n) for b in range(a + 1, n) if not any(x[0] == a and x[1] == b for x in G["edges"])]
            G2 = common.mk_graph_like(G, [list(x) for x in G["edges"]] + ([[non[0][0], non[0][1], 1]] if non else [[0, 1, 1]] if n >= 2 else []))
        elif c.get("other") == "vset":
            G2 = {"n": n + 1, "names": names + ["zz_extra"], "edges": [list(x) for x in G["edges"]] + [[0, n, 1]]}; E2 = list(c["E"]) + [0]
        e = common.build_impl_divisor(G2, E2, rng=rng); cf2 = CFConfig(e, names[c["q2"]]); r = []
        for f in (lambda: cfg <= cf2, lambda: cfg == cf2, lambda: cfg < cf2, lambda: cfg >= cf2, lambda: cfg > cf2):
            try: r.append(bool(f()))
            except ValueError: r.append("err")
        out["cmp"] = r
        # history: the chips of the first configuration are then moved on its underlying divisor directly (not through the configuration object) and the
        # comparisons are asked again on the same two objects
        mv = c.get("mv")
        if mv:
            d.chip_transfer(names[mv[0]], names[mv[1]], mv[2]); r2 = []
            for f in (lambda: cfg <= cf2, lambda: cfg == cf2, lambda: cfg < cf2, lambda: cfg >= cf2, lambda: cfg > cf2):
                try: r2.append(bool(f()))
                except ValueError: r2.append("err")
            out["cmp2"] = r2; out["sum2"] = cfg.get_degree_sum()
            d.chip_transfer(names[mv[1]], names[mv[0]], mv[2])       # moved back: the purity snapshot below is about the queries, not about this hand-made move
    elif k == "count":
        M = common.matrix(G); others = [v for v in range(n) if v != c["q"]]; cnt = 0
        for vals in itertools.product(*[range(sum(M[v])) for v in others]):
            D = [0] * n
            for v, x in zip(others, vals): D[v] = x
            if CFConfig(common.build_impl_divisor(G, D, graph=d.graph), names[c["q"]]).is_superstable(): cnt += 1
        red = CFLaplacian(d.graph).get_reduced_matrix(Vertex(names[c["q"]]))
        out["count"] = cnt; out["det"] = _det([[red[Vertex(names[a])][Vertex(names[b])] for b in others] for a in others])
    out["pure"] = common.div_to_list(G, d) == before
    return out
def model_lines(c):
    if c["kind"] == "parking": return [["parking"] + common.enc_list(c["a"]) + [-1 if c["n"] is None else c["n"]], ["genpark", c["gen"]]]
    g = common.enc_graph(c["G"]); q = c["q"]; D = common.enc_list(c["D"])
    if c["kind"] == "legal": return [["legal"] + g + [q] + D + common.enc_list(c["S"])]
    if c["kind"] == "sstable": return [["sstable"] + g + [q] + D]
    if c["kind"] == "order":
        ls = [["cfgcmp"] + g + [q] + D + common.enc_list(c["E"])]
        if c.get("mv"):
            D2 = list(c["D"]); D2[c["mv"][0]] -= c["mv"][2]; D2[c["mv"][1]] += c["mv"][2]; ls.append(["cfgcmp"] + g + [q] + common.enc_list(D2) + common.enc_list(c["E"]))
        return ls
    return [["sscount"] + g + [q]]
def judge(c, r, mo):
    if "exc" in r: return [{"what": "implementation raised %s: %s" % (r["exc"], r.get("msg"))}]
    o = r["ok"]; k = c["kind"]; out = []
    if k == "parking":
        if o["is"] != (mo[0][0] == "1"): out.append({"what": "is_parking_function(%s, n=%s) = %s, model %s" % (c["a"], c["n"], o["is"], mo[0][0])})
        txt = " ".join(mo[1]); cnt = int(mo[1][0]); pc = int(mo[1][1]); seqs = sorted([int(x) for x in s.split()] for s in txt.split(" ", 2)[2].split(";") if s.strip()) if cnt else []
        if o["gen"] != seqs or o["gen_len"] != cnt: out.append({"what": "generate_parking_functions(%d): %d sequences, model %d (or different members)" % (c["gen"], o["gen_len"], cnt)})
        if o.get("gen_again", seqs) != seqs: out.append({"what": "generate_parking_functions(%d) called again after the caller edited the first result in place: %s, model %s" % (c["gen"], o["gen_again"][:6], seqs[:6])})
        if o["count"] != pc or (c["gen"] >= 1 and o["count"] != o["gen_len"]): out.append({"what": "parking_function_count(%d) = %s, generated %d, formula %d" % (c["gen"], o["count"], o["gen_len"], pc)})
        return out
    if not o.get("pure", True): out.append({"what": "a legality / superstability / comparison query modified the divisor"})
    if k == "legal":
        exp = ["err"] if mo[0][0] == "err" else ["ok", mo[0][1] == "1"]
        if o["legal"] != exp: out.append({"what": "is_legal_set_firing(c=%s, q=%d, S=%s) = %s, model %s" % (c["D"], c["q"], c["S"], o["legal"], exp)})
        if "outdeg" in o:
            M = common.matrix(c["G"]); S = [v for v in c["S"] if v < c["G"]["n"] and v != c["q"]]; want = [sum(M[v][w] for w in range(c["G"]["n"]) if w not in S) for v in S]
            if o["outdeg"] != want: out.append({"what": "get_out_degree_S %s, edges leaving S %s" % (o["outdeg"], want)})
    elif k == "sstable":
        if o["ss"] != (mo[0][0] == "1") or mo[0][0] != mo[0][1]: out.append({"what": "is_superstable(c=%s, q=%d) = %s, model %s" % (c["D"], c["q"], o["ss"], mo[0])})
    elif k == "order":
        le, eq, lt, ge, gt = [x == "1" for x in mo[0]]
        exp = [le, eq, lt, ge, gt] if (c["q2"] == c["q"] and not (c.get("other") and c["G"]["n"] >= 2)) else ["err", False, "err", "err", "err"]     # another sink or another graph: incomparable
        if o["cmp"] != exp: out.append({"what": "comparisons (<=,==,<,>=,>) of %s and %s (q=%d,q'=%d): %s, model %s" % (c["D"], c["E"], c["q"], c["q2"], o["cmp"], exp)})
        if "cmp2" in o and len(mo) > 1:
            le2, eq2, lt2, ge2, gt2 = [x == "1" for x in mo[1]]
            exp2 = [le2, eq2, lt2, ge2, gt2] if (c["q2"] == c["q"] and not (c.get("other") and c["G"]["n"] >= 2)) else ["err", False, "err", "err", "err"]
            D2 = list(c["D"]); D2[c["mv"][0]] -= c["mv"][2]; D2[c["mv"][1]] += c["mv"][2]
            if o["cmp2"] != exp2: out.append({"what": "the same two configurations compared again after chip_transfer%s on the first one's divisor (now %s): %s, model %s" % (tuple(c["mv"]), D2, o["cmp2"], exp2)})
            if o["sum2"] != sum(x for v, x in enumerate(D2) if v != c["q"]): out.append({"what": "get_degree_sum() = %s after chips were moved on the underlying divisor, the chips off q now total %d" % (o["sum2"], sum(x for v, x in enumerate(D2) if v != c["q"]))})
    else:
        if o["count"] != int(mo[0][0]) or o["det"] != int(mo[0][1]) or o["count"] != o["det"]:
            out.append({"what": "#superstables reported %s, det(reduced Laplacian) %s; model %s" % (o["count"], o["det"], mo[0])})
    return out
def oracle(c, r):
    if r is None or "exc" in r: return {"violates": True, "why": "raised"}
    o = r["ok"]; k = c["kind"]
    if k == "parking":
        a = c["a"]; n = len(a) if c["n"] is None else c["n"]
        truth = True if not a else (len(a) == n and all(1 <= x <= n for x in a) and all(sum(1 for x in a if x <= j) >= j for j in range(1, n + 1)))
        m = c["gen"]; allp = sorted(list(s) for s in itertools.product(range(1, m + 1), repeat=m) if all(sum(1 for x in s if x <= j) >= j for j in range(1, m + 1))) if m >= 1 else []
        why = []
        if o["is"] != truth: why.append("predicate %s, definition %s" % (o["is"], truth))
        if o["gen"] != allp: why.append("generator wrong")
        if o.get("gen_again", allp) != allp: why.append("generator wrong on the second call (result shared with the first caller)")
        if o["count"] != (0 if m <= 0 else (m + 1) ** (m - 1)) or (m >= 1 and o["count"] != len(allp)): why.append("count wrong")
        return {"violates": bool(why), "why": why}
    m = O.mk(c["G"]); n = len(m); q = c["q"]; D = c["D"]
    if k == "legal":
        S = c["S"]
        exp = ["ok", False] if not S else (["err"] if any(v >= n or v == q for v in S) else ["ok", O.legal(m, D, set(S))])
        return {"violates": o["legal"] != exp, "expected": exp}
    if k == "sstable": return {"violates": o["ss"] != O.is_reduced(m, D, q), "expected": O.is_reduced(m, D, q)}
    if k == "order":
        if c["q2"] != q or (c.get("other") and n >= 2): return {"violates": o["cmp"] != ["err", False, "err", "err", "err"] or o.get("cmp2", ["err", False, "err", "err", "err"]) != ["err", False, "err", "err", "err"]}
        vs = [v for v in range(n) if v != q]; E = c["E"]
        def rel(X):
            le = all(X[v] <= E[v] for v in vs); ge = all(X[v] >= E[v] for v in vs); eq = all(X[v] == E[v] for v in vs); return [le, eq, le and not eq, ge, ge and not eq]
        bad = o["cmp"] != rel(D)
        if "cmp2" in o and c.get("mv"):
            D2 = list(D); D2[c["mv"][0]] -= c["mv"][2]; D2[c["mv"][1]] += c["mv"][2]
            bad = bad or o["cmp2"] != rel(D2) or o["sum2"] != sum(D2[v] for v in vs)
        return {"violates": bad}
    return {"violates": o["count"] != o["det"], "count": o["count"], "det": o["det"]}
def nontrivial(cases): return len({str({k: v for k, v in c.items() if k not in ("s", "_id")}) for c in cases if c["kind"] in ("legal", "sstable") and (c["kind"] == "sstable" or c["S"])})
def distribution(cases):
    d = {}
    for c in cases: d[c["kind"]] = d.get(c["kind"], 0) + 1
    return {"kinds": d}
def search_cases(rng):
    """longer parking-like sequences (length 6..14): near-parking functions with one entry perturbed, every length constraint"""
    out = []
    for _ in range(3000):
        n = rng.randint(6, 14); a = sorted(rng.randint(1, i + 1) for i in range(n))
        if rng.random() < 0.7: a[rng.randrange(n)] += rng.choice([1, 1, 2, -1])
        rng.shuffle(a)
        out.append({"kind": "parking", "a": a, "n": rng.choice([None, None, n]), "gen": 0, "s": 0})
    return out
