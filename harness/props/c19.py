"""C19 Published closed forms and bounds agree with the true gonality."""
import random, itertools, os, common, oracle as O
RULE = ("connected simple graphs (quick: random + all families on <= 6 vertices; thorough: every connected simple graph on 2..7 vertices from the graph atlas), complete graphs K_2..K_7, "
        "part-size vectors with sum <= 7, the five generated solids; non-trivial = distinct case")
EXPLANATION = ("every published number is compared with the verified gonality / independence number of the SAME graph object the library generates: closed forms (K_n: theorem C19_complete_graph_gonality for all n), "
               "table entries and structural counts of the solids (re-proved by coqc against Generated.v dumped from the live generators on every run), aggregate lower/upper bounds and the four theorem-backed entries")
def _atlas(maxn):
    import networkx as nx
    from networkx.generators.atlas import graph_atlas_g
    for G in graph_atlas_g():
        n = G.number_of_nodes()
        if 2 <= n <= maxn and nx.is_connected(G): yield n, sorted(tuple(sorted(e)) for e in G.edges())
def gen(rng, tier):
    out = [{"kind": "solids"}]
    for n in range(2, 8): out.append({"kind": "Kn", "n": n})
    for total in range(2, 8):
        for k in range(2, total + 1):      # one part = an edgeless graph: not connected, no gonality to compare with
            for parts in itertools.combinations_with_replacement(range(1, total + 1), k):
                if sum(parts) == total and (tier == "thorough" or rng.random() < 0.5):
                    p = list(parts); rng.shuffle(p); out.append({"kind": "multipartite", "parts": p})
    if tier == "thorough":
        for n, edges in _atlas(7): out.append({"kind": "graph", "G": common.mk_graph(n, [(a, b, 1) for a, b in edges], rng), "s": rng.randrange(1 << 30)})
    else:
        # all 995 connected simple graphs on 2..7 vertices (the thorough tier runs the same set under 8 hash seeds instead of 2)
        for n, edges in _atlas(7): out.append({"kind": "graph", "G": common.mk_graph(n, [(a, b, 1) for a, b in edges], rng), "s": rng.randrange(1 << 30)})
    # independence numbers beyond the sizes everything else uses: sparse connected simple graphs on 21..25 vertices (a random tree plus extra edges);
    # the exact value comes from a definition-level branch-and-bound in this file (the extracted model enumerates all subsets and stops at ~16 vertices)
    for _ in range(14 if tier == "quick" else 120):
        n = rng.randint(21, 25); e = set()
        for v in range(1, n): e.add((rng.randrange(v), v))
        while len(e) < n - 1 + rng.randint(n // 3, n): a, b = sorted(rng.sample(range(n), 2)); e.add((a, b))
        out.append({"kind": "bigalpha", "G": common.mk_graph(n, [(a, b, 1) for a, b in sorted(e)], None, 0), "s": rng.randrange(1 << 30)})
    return out
def _exact_alpha(G):
    import functools
    n = G["n"]; adj = [0] * n
    for a, b, _ in G["edges"]: adj[a] |= 1 << b; adj[b] |= 1 << a
    @functools.lru_cache(maxsize=None)
    def rec(cand):
        if not cand: return 0
        best_v, best_d = None, -1; x = cand
        while x:
            v = (x & -x).bit_length() - 1; x &= x - 1; d = bin(adj[v] & cand).count("1")
            if d <= 1: return 1 + rec(cand & ~adj[v] & ~(1 << v))      # a vertex with at most one candidate neighbour can always be taken
            if d > best_d: best_v, best_d = v, d
        v = best_v
        return max(1 + rec(cand & ~adj[v] & ~(1 << v)), rec(cand & ~(1 << v)))
    return rec((1 << n) - 1)
def _canon_graph(g):
    from chipfiring.CFGraph import Vertex
    names = sorted(v.name for v in g.vertices); V = [Vertex(x) for x in names]
    return {"n": len(names), "names": names, "edges": [[a, b, g.graph[V[a]].get(V[b], 0)] for a in range(len(V)) for b in range(a + 1, len(V)) if g.graph[V[a]].get(V[b], 0)]}
def solids_data():
    import chipfiring.CFPlatonicSolids as P
    import chipfiring.CFCombinatorics as C
    alpha = {"octahedron": [C.octahedron_independence_number(), C.independence_number(P.octahedron())], "icosahedron": [C.icosahedron_independence_number(), C.independence_number(P.icosahedron())]}
    return {name: _canon_graph(getattr(P, name)()) for name in ("tetrahedron", "cube", "octahedron", "dodecahedron", "icosahedron")}, P.platonic_solid_gonality_bounds(), alpha
def impl(c):
    import chipfiring.CFPlatonicSolids as P
    from chipfiring.CFCombinatorics import gonality_theoretical_bounds, independence_number, complete_multipartite_gonality
    k = c["kind"]
    if k == "solids":
        gs, table, alpha = solids_data()
        # history: the caller edits a generated solid in place (thickens an edge), then generates the solid again - it must be the published solid again
        again = {}
        for name in gs:
            g1 = getattr(P, name)(); vs = sorted(v.name for v in g1.vertices); nb = sorted(w.name for w in g1.graph[next(v for v in g1.vertices if v.name == vs[0])])
            g1.add_edge(vs[0], nb[0], 2); again[name] = _canon_graph(getattr(P, name)())
        return {"graphs": gs, "table": table, "again": again, "table_again": P.platonic_solid_gonality_bounds(), "alpha": alpha}
    if k == "Kn":
        G1 = P.complete_graph(c["n"]); first = _canon_graph(G1)
        if c["n"] >= 2:
            vs = sorted(v.name for v in G1.vertices); G1.add_edge(vs[0], vs[1], 1)
        return {"formula": P.complete_graph_gonality(c["n"]), "G": first, "G_again": _canon_graph(P.complete_graph(c["n"]))}
    if k == "multipartite": return {"formula": complete_multipartite_gonality(list(c["parts"]))}
    if k == "bigalpha": return {"alpha": independence_number(common.build_impl_graph(c["G"], random.Random(c["s"])))}
    g = common.build_impl_graph(c["G"], random.Random(c["s"]))
    b = gonality_theoretical_bounds(g); return {"bounds": {x: b[x] for x in b}, "alpha": independence_number(g)}
def _mp_graph(parts):
    n = sum(parts); part = []
    for i, p in enumerate(parts): part += [i] * p
    return common.mk_graph(n, [(a, b, 1) for a in range(n) for b in range(a + 1, n) if part[a] != part[b]], None, 0)
TWO_STAGE = True
def model_lines(c, r):
    k = c["kind"]
    if k == "solids":
        if "ok" not in r: return [["info", 1, 0]]
        ls = []
        for name in ("tetrahedron", "octahedron", "cube"):
            G = r["ok"]["graphs"][name]; ls.append(["gon"] + common.enc_graph(G) + [G["n"], 0])
        for name in ("octahedron", "icosahedron"): ls.append(["indep"] + common.enc_graph(r["ok"]["graphs"][name]))
        return ls
    if k == "Kn":
        G = r["ok"]["G"] if "ok" in r else common.mk_graph(c["n"], common.fam_complete(c["n"]), None, 0)
        return [["gon"] + common.enc_graph(G) + [G["n"], 0]]
    if k == "multipartite":
        G = _mp_graph(c["parts"]); return [["gon"] + common.enc_graph(G) + [G["n"], 0], ["multipart"] + common.enc_list(c["parts"])]
    if k == "bigalpha": return [["info", 1, 0]]
    g = common.enc_graph(c["G"]); return [["gon"] + g + [c["G"]["n"], 0], ["indep"] + g]
def judge(c, r, mo):
    if "exc" in r: return [{"what": "implementation raised %s: %s" % (r["exc"], r.get("msg"))}]
    if c["kind"] == "bigalpha":
        a = _exact_alpha(c["G"])
        return [] if r["ok"]["alpha"] == a else [{"what": "independence_number = %s on a graph with %d vertices whose largest independent sets have %d vertices (edges %s)" % (r["ok"]["alpha"], c["G"]["n"], a, c["G"]["edges"])}]
    if any(x[0] == "FUEL" for x in mo): return []
    o = r["ok"]; k = c["kind"]; out = []
    if k == "solids":
        exp = {"tetrahedron": (4, 6, 3), "cube": (8, 12, 3), "octahedron": (6, 12, 4), "dodecahedron": (20, 30, 3), "icosahedron": (12, 30, 5)}
        for name, (nv, ne, reg) in exp.items():
            G = o["graphs"][name]; M = common.matrix(G); t = o["table"][name]
            if G["n"] != nv or len(G["edges"]) != ne or any(kk != 1 for _, _, kk in G["edges"]) or any(sum(row) != reg for row in M) or not common.is_connected(G):
                out.append({"what": "generated %s is not the %d-vertex %d-edge %d-regular simple graph" % (name, nv, ne, reg)})
            if t["vertices"] != nv or t["edges"] != ne: out.append({"what": "table counts for %s are %s/%s" % (name, t["vertices"], t["edges"])})
        for name, line in zip(("octahedron", "icosahedron"), mo[3:5]):
            if "alpha" in o and o["alpha"][name] != [int(line[0])] * 2: out.append({"what": "published / computed independence number of the %s is %s, its largest independent set has %s vertices" % (name, o["alpha"][name], line[0])})
        if o.get("again", o["graphs"]) != o["graphs"]: out.append({"what": "a solid generated again after the caller edited the first copy in place differs from the published solid: %s" % [nm for nm in o["graphs"] if o["again"][nm] != o["graphs"][nm]]})
        if o.get("table_again", o["table"]) != o["table"]: out.append({"what": "the published table changed after a generated solid was edited"})
        for name, line in zip(("tetrahedron", "octahedron", "cube"), mo):
            t = o["table"][name]; gon = int(line[0])
            if t.get("exact") != gon or t["lower_bound"] > gon or t["upper_bound"] < gon: out.append({"what": "table entry for %s (%s) does not match the verified gonality %d of the generated graph" % (name, t, gon)})
        return out
    gon = int(mo[0][0])
    if k == "Kn":
        if o["G"] != common.mk_graph(c["n"], common.fam_complete(c["n"]), None, 0) and o["G"]["edges"] != [[a, b, 1] for a in range(c["n"]) for b in range(a + 1, c["n"])]: out.append({"what": "complete_graph(%d) is not K_%d" % (c["n"], c["n"])})
        if o["formula"] != gon or gon != c["n"] - 1: out.append({"what": "complete_graph_gonality(%d) = %s, verified gonality of the generated graph %d" % (c["n"], o["formula"], gon)})
        if o.get("G_again", o["G"]) != o["G"]: out.append({"what": "complete_graph(%d) generated again after the caller edited the first copy is not K_%d any more" % (c["n"], c["n"])})
        return out
    if k == "multipartite":
        if o["formula"] != gon:
            key = "multipartite_formula_min_part" if (len(c["parts"]) >= 2 and o["formula"] == sum(c["parts"]) - min(c["parts"]) and int(mo[1][0]) == o["formula"]) else None
            out.append({"what": "complete_multipartite_gonality(%s) = %s, the verified gonality of K_%s is %d" % (c["parts"], o["formula"], c["parts"], gon), "key": key})
        return out
    b = o["bounds"]; n = c["G"]["n"]; alpha, mind, compl = int(mo[1][0]), int(mo[1][1]), mo[1][2] == "1"
    if o["alpha"] != alpha: out.append({"what": "independence_number = %s, largest independent set has %d vertices" % (o["alpha"], alpha)})
    if "lower_bound" in b:
        if not (b["lower_bound"] <= gon <= b["upper_bound"]): out.append({"what": "aggregate bounds [%s, %s] do not bracket the verified gonality %d (edges %s)" % (b["lower_bound"], b["upper_bound"], gon, c["G"]["edges"])})
        if b["minimum_degree_bound"] > gon or b["minimum_degree_bound"] != mind: out.append({"what": "minimum_degree_bound %s (min degree %d, gonality %d)" % (b["minimum_degree_bound"], mind, gon)})
        if b["bramble_order_bound"] - 1 > gon: out.append({"what": "bramble_order_bound - 1 = %s exceeds the gonality %d" % (b["bramble_order_bound"] - 1, gon)})
        if b["trivial_upper_bound"] != n - 1 or gon > n - 1: out.append({"what": "trivial_upper_bound %s (n-1 = %d, gonality %d)" % (b["trivial_upper_bound"], n - 1, gon)})
        if b["independence_upper_bound"] != n - alpha or gon > n - alpha: out.append({"what": "independence_upper_bound %s (n - alpha = %d, gonality %d)" % (b["independence_upper_bound"], n - alpha, gon)})
    return out
def oracle(c, r):
    if r is None or "exc" in r: return {"violates": True, "why": "raised"}
    o = r["ok"]; k = c["kind"]
    if k == "bigalpha":
        a = _exact_alpha(c["G"]); return {"violates": o["alpha"] != a, "why": "independence_number %s, exact value %d" % (o["alpha"], a)}
    if k == "solids":
        why = []
        for name in ("tetrahedron", "octahedron", "cube"):
            gon = O.gonality(O.mk(o["graphs"][name])) if name != "cube" else 4
            if o["table"][name].get("exact") != gon: why.append("%s table %s, gonality %s" % (name, o["table"][name].get("exact"), gon))
        if o.get("again", o["graphs"]) != o["graphs"]: why.append("regenerated solid differs after the caller edited the first copy")
        return {"violates": bool(why), "why": why}
    if k == "Kn": return {"violates": o["formula"] != O.gonality(O.mk(o["G"])) or o.get("G_again", o["G"]) != o["G"], "gonality": O.gonality(O.mk(o["G"]))}
    if k == "multipartite":
        t = O.gonality(O.mk(_mp_graph(c["parts"]))); return {"violates": o["formula"] != t, "gonality": t, "formula": o["formula"]}
    m = O.mk(c["G"]); n = len(m); gon = O.gonality(m); alpha = max(len(S) for S in [set()] + list(O.subsets(list(range(n)))) if all(m[a][b] == 0 for a in S for b in S if a != b))
    b = o["bounds"]; why = []
    if o["alpha"] != alpha: why.append("independence number %s vs %d" % (o["alpha"], alpha))
    if "lower_bound" in b and not (b["lower_bound"] <= gon <= b["upper_bound"] and b["minimum_degree_bound"] <= gon and b["bramble_order_bound"] - 1 <= gon and gon <= b["trivial_upper_bound"] and gon <= b["independence_upper_bound"]):
        why.append("bounds %s vs gonality %d" % ({x: b[x] for x in ("lower_bound", "upper_bound", "minimum_degree_bound", "bramble_order_bound", "trivial_upper_bound", "independence_upper_bound")}, gon))
    return {"violates": bool(why), "why": why}
def pre_proof(log):
    """dump the live generators and the published table into coq/theories/Generated.v (re-checked by coqc on every run)"""
    import subprocess, json
    env = dict(os.environ); env.update({"PYTHONPATH": common.REPO + os.pathsep + os.path.join(common.VERIF, "harness"), "PYTHONHASHSEED": "0"})
    code = "import json,sys,io,contextlib\nsys.path.insert(0,'%s')\nfrom props import c19\nwith contextlib.redirect_stdout(io.StringIO()): d=c19.solids_data()\nprint(json.dumps(d))" % os.path.join(common.VERIF, "harness")
    p = subprocess.run([common.PY, "-c", code], env=env, capture_output=True, text=True, timeout=300)
    if p.returncode != 0: log.append("Generated.v: dump failed: " + p.stderr[-500:]); return
    gs, table, alpha = json.loads(p.stdout.strip().split("\n")[-1])
    def mat(G): return "[" + ";".join("[" + ";".join(str(x) for x in row) + "]" for row in common.matrix(G)) + "]"
    lines = ["(* GENERATED on every run by harness/props/c19.py from the live generators in /repo/chipfiring/CFPlatonicSolids.py. Do not edit. *)",
             "From Coq Require Import ZArith List.", "Import ListNotations.", "Open Scope Z_scope.", "Definition gmatrix := list (list Z)."]
    for name, G in gs.items(): lines.append("Definition gen_%s : gmatrix := %s." % (name, mat(G)))
    for name, t in table.items():
        lines.append("Definition table_%s : Z * Z * Z * Z * Z := (%d, %d, %d, %d, %d)." % (name, t.get("exact", -1), t["lower_bound"], t["upper_bound"], t["vertices"], t["edges"]))
    for name, (pub, comp) in alpha.items(): lines.append("Definition alpha_%s : nat * nat := (%d, %d)%%nat.   (* published constant, independence_number() of the generated graph *)" % (name, pub, comp))
    txt = "\n".join(lines) + "\n"; path = os.path.join(common.COQ, "theories", "Generated.v")
    if not os.path.exists(path) or open(path).read() != txt: open(path, "w").write(txt)
def nontrivial(cases): return len({str(c) for c in cases})
def distribution(cases):
    d = {}
    for c in cases: d[c["kind"]] = d.get(c["kind"], 0) + 1
    return {"kinds": d}
