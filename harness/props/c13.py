"""C13 Graph bookkeeping (valences, edge total, genus) consistent over any history."""
import random, common
RULE = ("vertex sets of 1..7 names x histories of 1..40 add_edge / add_edges / remove_vertex calls, ~25% invalid (loop, non-positive multiplicity, unknown endpoint, "
        "batches with an invalid edge first / in the middle / last), both endpoint orders, repeated pairs; non-trivial = distinct history with >= 3 accepted edges")
EXPLANATION = ("after every call: outcome class, the full adjacency map read in both directions, every valence, edge total and genus are compared with the model state machine "
               "whose invariant (symmetry, valence = row sum, total = half the valence sum, genus) is theorem C13_history")
def gen_ops(rng, n, L):
    ops = []
    def edge(valid=True):
        if n >= 2 and valid: a, b = rng.sample(range(n), 2); return [a, b, rng.choice([1, 1, 2, 3, 5])]
        kind = rng.choice(["loop", "zero", "neg", "unknown", "unknown2"])
        a = rng.randrange(n); b = rng.randrange(n)
        if kind == "loop": return [a, a, 1]
        if kind == "zero": return [a, (a + 1) % max(n, 2), 0]
        if kind == "neg": return [a, (a + 1) % max(n, 2), -rng.randint(1, 3)]
        if kind == "unknown": return [a, n + rng.randint(0, 2), 1]
        return [n + 1, b, 2]
    for _ in range(L):
        r = rng.random()
        if r < 0.6: ops.append([0] + edge(rng.random() < 0.8))
        elif r < 0.85:
            k = rng.randint(0, 4); es = [edge(True) for _ in range(k)]
            if rng.random() < 0.4 and k: es[rng.choice([0, k // 2, k - 1])] = edge(False)
            ops.append([1, es])
        else: ops.append([2, rng.randrange(n + 1)])
    return ops
def gen(rng, tier):
    out = []
    for _ in range(250 if tier == "quick" else 6000):
        n = rng.randint(1, 7)
        out.append({"n": n, "style": rng.randrange(len(common.NAME_STYLES)), "ops": gen_ops(rng, n, rng.randint(1, 40 if tier == "quick" else 60))})
    return out
def _dump(g, names):
    from chipfiring.CFGraph import Vertex
    n = len(names); V = [Vertex(x) for x in names]
    adj = [[g.graph[V[a]].get(V[b], 0) for b in range(n)] for a in range(n)]
    keys_ok = sorted(v.name for v in g.graph) == sorted(names) and sorted(v.name for v in g.vertices) == sorted(names) \
        and all(w in g.graph and w != v and k > 0 for v in g.graph for w, k in g.graph[v].items()) and sorted(v.name for v in g.vertex_total_valence) == sorted(names)     # no phantom neighbours, no stored zeros
    return {"adj": adj, "val": [g.get_valence(x) for x in names], "tot": g.total_valence, "genus": g.get_genus(), "keys_ok": keys_ok,
            "types_ok": all(type(x) is int for r in adj for x in r)}
def impl(c):
    from chipfiring import CFGraph
    n = c["n"]; names = sorted(common.NAME_STYLES[c["style"]](n)); ext = common.FreshNames(names + ["zz_unknown%d" % i for i in range(4)])
    g = CFGraph(set(names), []); out = []; kept = []
    for op in c["ops"]:
        res = "ok"; extra = None
        try:
            if op[0] == 0: g.add_edge(ext[op[1]], ext[op[2]], op[3])
            elif op[0] == 1: g.add_edges([(ext[a], ext[b], k) for a, b, k in op[1]])
            else:
                h = g.remove_vertex(ext[op[1]]); rest = [x for i, x in enumerate(names) if i != op[1]]; extra = _dump(h, rest)
                if len(kept) < 4: kept.append((h, rest, extra))
        except ValueError: res = "err"
        # graphs returned by earlier remove_vertex calls are objects of their own: later changes of g must not reach them
        out.append({"res": res, "st": _dump(g, names), "removed": extra, "kept_ok": all(_dump(h, rest) == dmp for h, rest, dmp in kept)})
    # ... and changes of a returned graph must not reach g
    if out:
        before = _dump(g, names)
        for h, rest, _ in kept:
            for a in range(len(rest)):
                for b in range(a + 1, len(rest)): h.add_edge(rest[a], rest[b], 1 + a)
        out[-1]["g_unmoved"] = _dump(g, names) == before
    return out
def model_lines(c):
    toks = ["ghist", c["n"], len(c["ops"])]
    for op in c["ops"]:
        if op[0] == 0: toks += [0] + op[1:]
        elif op[0] == 1: toks += [1, len(op[1])] + [x for e in op[1] for x in e]
        else: toks += [2, op[1]]
    return [toks]
def _parse_state(tok):
    a, v, t = " ".join(tok).split(";"); a = [int(x) for x in a.split()]; v = [int(x) for x in v.split()]; t = [int(x) for x in t.split()]
    n = len(v); return {"adj": [a[i * n:(i + 1) * n] for i in range(n)], "val": v, "tot": t[0], "genus": t[1]}
def judge(c, r, mo):
    if "exc" in r: return [{"what": "implementation raised %s: %s" % (r["exc"], r.get("msg"))}]
    steps = " ".join(mo[0]).split("|")[:-1]
    for i, (st, ir) in enumerate(zip(steps, r["ok"])):
        tok = st.split(); res = tok[0]; rest = tok[1:]; removed = None
        if rest and rest[0] == "[":
            j = rest.index("]"); removed = _parse_state(rest[1:j]); rest = rest[j + 1:]
        ms = _parse_state(rest)
        if ir["res"] != res: return [{"what": "op #%d %s: implementation %s, model %s" % (i, c["ops"][i], ir["res"], res)}]
        for k in ("adj", "val", "tot", "genus"):
            if ir["st"][k] != ms[k]: return [{"what": "after op #%d %s: %s is %s, model has %s" % (i, c["ops"][i], k, ir["st"][k], ms[k])}]
        if not ir["st"]["keys_ok"] or not ir["st"]["types_ok"]: return [{"what": "after op #%d: vertex set / entry types changed" % i}]
        if not ir.get("kept_ok", True): return [{"what": "after op #%d %s on the graph: a graph returned earlier by remove_vertex changed with it (shared storage)" % (i, c["ops"][i])}]
        if not ir.get("g_unmoved", True): return [{"what": "adding edges to the graphs returned by remove_vertex changed the original graph (shared storage)"}]
        if removed is not None and ir["removed"] is not None:
            for k in ("adj", "val", "tot", "genus"):
                if ir["removed"][k] != removed[k]: return [{"what": "remove_vertex at op #%d: %s is %s, induced multigraph has %s" % (i, k, ir["removed"][k], removed[k])}]
    return []
def oracle(c, r):
    """recompute everything from the multiset of accepted edges (definition level)"""
    if r is None or "exc" in r: return {"violates": True, "why": "raised"}
    n = c["n"]; M = [[0] * n for _ in range(n)]
    def valid(a, b, k): return a != b and k > 0 and a < n and b < n
    for i, (op, ir) in enumerate(zip(c["ops"], r["ok"])):
        if not ir.get("kept_ok", True) or not ir.get("g_unmoved", True): return {"violates": True, "why": "a graph returned by remove_vertex shares storage with the original (op #%d)" % i}
        exp = "ok"
        if op[0] == 0:
            if valid(*op[1:]): M[op[1]][op[2]] += op[3]; M[op[2]][op[1]] += op[3]
            else: exp = "err"
        elif op[0] == 1:
            for a, b, k in op[1]:
                if valid(a, b, k): M[a][b] += k; M[b][a] += k
                else: exp = "err"; break
        else:
            exp = "ok" if op[1] < n else "err"
            if exp == "ok" and ir["removed"] is not None:
                keep = [x for x in range(n) if x != op[1]]; sub = [[M[a][b] for b in keep] for a in keep]
                if ir["removed"]["adj"] != sub or ir["removed"]["val"] != [sum(x) for x in sub] or ir["removed"]["tot"] != sum(map(sum, sub)) // 2:
                    return {"violates": True, "why": "remove_vertex(%d) at op #%d is not the induced multigraph" % (op[1], i)}
        st = ir["st"]; tot = sum(map(sum, M)) // 2
        if ir["res"] != exp or st["adj"] != M or st["val"] != [sum(x) for x in M] or st["tot"] != tot or st["genus"] != tot - n + 1:
            return {"violates": True, "why": "after op #%d %s: expected outcome %s adjacency %s; observed %s %s" % (i, op, exp, M, ir["res"], st)}
    return {"violates": False}
def nontrivial(cases):
    return len({str(c) for c in cases if sum(1 for o in c["ops"] if o[0] == 0 and o[1] != o[2] and o[3] > 0 and max(o[1], o[2]) < c["n"]) >= 3})
