"""C08 Debt concentration clears V-q; the burn returns the maximal legal firing set."""
import random, itertools, common, oracle as O
RULE = ("connected multigraphs x every kind of sink (random q) x integer divisors with debt on several vertices (concentration) and configurations non-negative off q (burn); "
        "thorough additionally enumerates all 2^(n-1) subsets through the implementation's is_legal_set_firing; non-trivial = distinct (graph, q, divisor) with debt off q or a non-empty legal set")
EXPLANATION = ("the concentrated divisor goes through the verified checker conc_ok (debt-free off q, same class; theorem conc_ok_sound); the unburnt set returned by run() is compared "
               "for equality with the model's burn on the implementation's own configuration (Dhar's theorem C08_burn)")
TWO_STAGE = True

def _threshold_game(rng, G, q):
    """a little debt off q next to rich vertices holding about (valence + total debt) chips, on thick edges: concentration takes more from a rich vertex
    than the debt it repairs, and the vertex then sits right at the burning threshold"""
    n = G["n"]; e = [[a, b, rng.choice([1, 2, 3])] for a, b, _ in G["edges"]]; G = common.mk_graph_like(G, e); M = common.matrix(G)
    others = [x for x in range(n) if x != q]; debtors = rng.sample(others, rng.randint(1, min(2, len(others) - 1))); D = [0] * n; tot = 0
    for v in debtors: D[v] = -rng.randint(1, 2); tot -= D[v]
    for v in others:
        if v not in debtors: D[v] = rng.choice([0, sum(M[v]) + tot + rng.choice([-1, 0, 0, 1])])
    D[q] = rng.randint(-2, 4)
    return G, D
def gen(rng, tier):
    cases = []
    for _ in range(300 if tier == "quick" else 6000):
        G, fam = common.random_connected_graph(rng, 1, 6 if tier == "quick" else 7, large_ok=True)
        n = G["n"]; q = rng.randrange(n); D = common.random_divisor(rng, G)
        if rng.random() < 0.15: G, D = common.thin_cut_game(rng); n = G["n"]; q = rng.randrange(n); fam = "thincut"
        if rng.random() < 0.2 and n >= 3 and G["edges"]: G, D = _threshold_game(rng, G, q)
        if rng.random() < 0.15 and n >= 2 and G["edges"]:      # a debt far deeper than the valence of the vertex that owes it (many borrowing moves at one vertex)
            M = common.matrix(G); v = rng.choice([x for x in range(n) if x != q]); D = list(D); D[v] = -(10 * sum(M[v]) + rng.randint(1, 3 * sum(M[v]) + 5))
        if rng.random() < 0.08 and G["edges"]: G, D = common.scale_game(rng, G, D); fam = fam + "*2^k"
        if rng.random() < 0.4:   # burn-only: non-negative off q, small values so that both burning and non-burning happen
            M = common.matrix(G); D = [rng.randint(0, max(1, sum(M[v]))) for v in range(n)]; D[q] = rng.randint(-3, 3)
        cases.append({"G": G, "q": q, "D": D, "fam": fam, "s": rng.randrange(1 << 30), "subsets": tier == "thorough" and n <= 7})
    # a batch of threshold games of their own (small graphs, cheap): a seeded change needed this family and shows on well under 1 % of its members
    for _ in range(900 if tier == "quick" else 6000):
        G, fam = common.random_connected_graph(rng, 3, 5); q = rng.randrange(G["n"]); G, D = _threshold_game(rng, G, q)
        cases.append({"G": G, "q": q, "D": D, "fam": "threshold", "s": rng.randrange(1 << 30), "subsets": False})
    return cases

def impl(c):
    from chipfiring.CFDhar import DharAlgorithm
    rng = random.Random(c["s"]); G = c["G"]; names = G["names"]; idx = {nm: i for i, nm in enumerate(names)}
    d = common.build_impl_divisor(G, c["D"], rng=rng)
    dh = DharAlgorithm(d.graph, d, names[c["q"]])
    dh.send_debt_to_q()
    conc = common.div_to_list(G, dh.configuration.divisor)
    unb, _ = dh.run()
    after_run = common.div_to_list(G, dh.configuration.divisor)
    unb_ids = sorted(idx[x] for x in unb)
    out = {"conc": conc, "after_run": after_run, "unburnt": unb_ids}
    d2 = common.build_impl_divisor(G, conc, rng=rng); dh2 = DharAlgorithm(d2.graph, d2, names[c["q"]])
    out["mlfs"] = sorted(idx[x] for x in dh2.get_maximal_legal_firing_set())
    out["superstable"] = bool(dh2.configuration.is_superstable()) if G["n"] <= 7 else None
    if unb_ids:
        dh.legal_set_fire(set(unb)); out["after_fire"] = common.div_to_list(G, dh.configuration.divisor)
    # history on the SAME DharAlgorithm object (what the EWD loop does): burn, fire the returned set, burn again ... every burn must be the
    # maximal legal firing set of the configuration it was asked about
    rounds = []; cur = unb
    for _ in range(6):
        if not isinstance(common.div_to_list(G, dh.configuration.divisor), list): break
        cfgb = common.div_to_list(G, dh.configuration.divisor); u2, _ = dh.run()
        rounds.append([cfgb, sorted(idx[x] for x in u2)])
        if not u2: break
        dh.legal_set_fire(set(u2))
    out["rounds"] = rounds
    # a second game on the SAME object: hand-made transfers put vertices other than q in debt, then concentration and burn are asked again
    if G["n"] >= 2:
        dv = dh.configuration.divisor
        for _ in range(rng.randint(1, 3)):
            a, b = rng.sample(range(G["n"]), 2); dv.chip_transfer(names[a], names[b], rng.randint(1, 4) + max(0, common.div_to_list(G, dv)[a]))
        D2 = common.div_to_list(G, dv); dh.send_debt_to_q(); conc2 = common.div_to_list(G, dh.configuration.divisor); u3, _ = dh.run()
        out["again"] = {"D2": D2, "conc2": conc2, "unburnt2": sorted(idx[x] for x in u3)}
    # run() asked directly on the raw divisor (debt still off q): it concentrates the debt itself and must then return the maximal legal firing set of the
    # configuration it leaves behind
    d3 = common.build_impl_divisor(G, c["D"], rng=rng); dh3 = DharAlgorithm(d3.graph, d3, names[c["q"]]); u3, _ = dh3.run()
    out["direct"] = {"conc": common.div_to_list(G, dh3.configuration.divisor), "unburnt": sorted(idx[x] for x in u3)}
    if c.get("subsets"):
        from chipfiring.CFConfig import CFConfig
        cfg = CFConfig(common.build_impl_divisor(G, conc, rng=rng), names[c["q"]])
        others = [v for v in range(G["n"]) if v != c["q"]]; union = set()
        for r in range(1, len(others) + 1):
            for S in itertools.combinations(others, r):
                if cfg.is_legal_set_firing({names[v] for v in S}): union |= set(S)
        out["union_legal"] = sorted(union)
    return out

def model_lines(c, r):
    g = common.enc_graph(c["G"])
    if "exc" in r or not isinstance(r["ok"]["conc"], list): return [["info"] + g]
    return [["concok"] + g + [c["q"]] + common.enc_list(c["D"]) + common.enc_list(r["ok"]["conc"]),
            ["burn"] + g + [c["q"]] + common.enc_list(r["ok"]["conc"])] + [["burn"] + g + [c["q"]] + common.enc_list(cfgb) for cfgb, _ in r["ok"].get("rounds", [])] + \
           ([["concok"] + g + [c["q"]] + common.enc_list(c["D"]) + common.enc_list(r["ok"]["direct"]["conc"]), ["burn"] + g + [c["q"]] + common.enc_list(r["ok"]["direct"]["conc"])]
            if isinstance(r["ok"].get("direct", {}).get("conc"), list) and all(type(x) is int for x in r["ok"]["direct"]["conc"]) else [["info"] + g, ["info"] + g]) + \
           ([["concok"] + g + [c["q"]] + common.enc_list(r["ok"]["again"]["D2"]) + common.enc_list(r["ok"]["again"]["conc2"]), ["burn"] + g + [c["q"]] + common.enc_list(r["ok"]["again"]["conc2"])]
            if isinstance(r["ok"].get("again", {}).get("conc2"), list) and all(type(x) is int for x in r["ok"]["again"]["conc2"] + r["ok"]["again"]["D2"]) else [])

def judge(c, r, mo):
    if "exc" in r: return [{"what": "implementation raised %s: %s" % (r["exc"], r.get("msg"))}]
    o = r["ok"]
    if not isinstance(o["conc"], list): return [{"what": "concentrated divisor has non-int entries %s" % o["conc"]}]
    if any(x[0] == "FUEL" for x in mo): return []
    out = []; n = c["G"]["n"]
    if mo[0][0] != "1": out.append({"what": "debt concentration at q=%d turned %s into %s: rejected by the verified checker conc_ok (debt off q, or left the class)" % (c["q"], c["D"], o["conc"])})
    k = int(mo[1][0]); U = sorted(int(x) for x in mo[1][1:1 + k])
    if o["after_run"] != o["conc"]: out.append({"what": "run() changed the configuration after concentration: %s -> %s" % (o["conc"], o["after_run"])})
    for key in ("unburnt", "mlfs"):
        if o[key] != U: out.append({"what": "%s = %s but the maximal legal firing set of %s (q=%d) is %s" % (key, o[key], o["conc"], c["q"], U)})
    if o.get("superstable") is not None and mo[0][0] == "1" and o["superstable"] != (U == []):
        out.append({"what": "is_superstable=%s but the burn leaves %s unburnt" % (o["superstable"], U)})
    if "after_fire" in o and any(o["after_fire"][v] < 0 for v in o["unburnt"]):
        out.append({"what": "firing the returned set %s put a member in debt: %s" % (o["unburnt"], o["after_fire"])})
    for i, (cfgb, u2) in enumerate(o.get("rounds", [])):
        line = mo[2 + i]; kk = int(line[0]); U2 = sorted(int(x) for x in line[1:1 + kk])
        if u2 != U2: out.append({"what": "burn #%d on the same DharAlgorithm object returned %s for configuration %s (q=%d); its maximal legal firing set is %s" % (i + 2, u2, cfgb, c["q"], U2)}); break
    if "union_legal" in o and o["union_legal"] != U: out.append({"what": "union of all legal subsets (implementation's own test) is %s, run() returned %s, model %s" % (o["union_legal"], o["unburnt"], U)})
    base = 2 + len(o.get("rounds", []))
    if "direct" in o and len(mo) >= base + 2 and mo[base][0] in ("0", "1"):
        dr = o["direct"]
        if mo[base][0] != "1": out.append({"what": "run() on the raw divisor %s left %s: rejected by the verified checker conc_ok (debt off q, or left the class)" % (c["D"], dr["conc"])})
        else:
            kk = int(mo[base + 1][0]); Ud = sorted(int(x) for x in mo[base + 1][1:1 + kk])
            if dr["unburnt"] != Ud: out.append({"what": "run() on the raw divisor %s (debt still off q) returned %s; it left the configuration %s, whose maximal legal firing set is %s" % (c["D"], dr["unburnt"], dr["conc"], Ud)})
    if "again" in o and len(mo) >= 6 + len(o.get("rounds", [])):
        a = o["again"]; l1, l2 = mo[4 + len(o.get("rounds", []))], mo[5 + len(o.get("rounds", []))]
        if l1[0] != "1": out.append({"what": "second concentration on the same DharAlgorithm object (after hand-made transfers) turned %s into %s: rejected by the verified checker conc_ok" % (a["D2"], a["conc2"])})
        else:
            kk = int(l2[0]); U3 = sorted(int(x) for x in l2[1:1 + kk])
            if a["unburnt2"] != U3: out.append({"what": "second game on the same object: run() returned %s for %s, its maximal legal firing set is %s" % (a["unburnt2"], a["conc2"], U3)})
    return out

def oracle(c, r):
    if r is None or "exc" in r: return {"violates": True, "why": "no result"}
    o = r["ok"]; m = O.mk(c["G"]); q = c["q"]; why = []
    if not isinstance(o["conc"], list): return {"violates": True, "why": "non-int degrees"}
    if any(o["conc"][v] < 0 for v in range(len(m)) if v != q): why.append("debt remains off q after concentration: %s" % o["conc"])
    if not O.lin_equiv(m, c["D"], o["conc"]): why.append("concentration left the linear equivalence class")
    if not why:
        others = [v for v in range(len(m)) if v != q]; union = set()
        for S in O.subsets(others):
            if O.legal(m, o["conc"], S): union |= S
        if sorted(union) != o["unburnt"]: why.append("union of legal sets %s != returned %s" % (sorted(union), o["unburnt"]))
        if o.get("superstable") is not None and o["superstable"] != (len(union) == 0): why.append("is_superstable wrong")
        for i, (cfgb, u2) in enumerate(o.get("rounds", [])):
            un = set()
            for S in O.subsets(others):
                if O.legal(m, cfgb, S): un |= S
            if sorted(un) != u2: why.append("burn #%d on the same object: union of legal sets of %s is %s, returned %s" % (i + 2, cfgb, sorted(un), u2)); break
        if "direct" in o and not why:
            dr = o["direct"]
            if any(dr["conc"][v] < 0 for v in range(len(m)) if v != q) or not O.lin_equiv(m, c["D"], dr["conc"]): why.append("run() on the raw divisor left %s" % dr["conc"])
            else:
                un = set()
                for S in O.subsets(others):
                    if O.legal(m, dr["conc"], S): un |= S
                if sorted(un) != dr["unburnt"]: why.append("run() on the raw divisor: union of legal sets of %s is %s, returned %s" % (dr["conc"], sorted(un), dr["unburnt"]))
        if "again" in o and not why:
            a = o["again"]
            if any(a["conc2"][v] < 0 for v in range(len(m)) if v != q) or not O.lin_equiv(m, a["D2"], a["conc2"]): why.append("second concentration on the same object: %s -> %s" % (a["D2"], a["conc2"]))
    return {"violates": bool(why), "why": why}

def nontrivial(cases):
    return len({(str(c["G"]["edges"]), c["q"], str(c["D"])) for c in cases if any(x < 0 for i, x in enumerate(c["D"]) if i != c["q"]) or max(c["D"]) > 0})
