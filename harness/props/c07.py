"""C07 linear_equivalence decides membership of D1 - D2 in the Laplacian lattice."""
import random, common, oracle as O
RULE = ("pairs on connected multigraphs: identical object, equal divisors on separately constructed / dict-reloaded copies, D vs D-L*sigma (plus extra firing moves on either side), "
        "same degree but random (mostly different class), different degree, same vertex set but different multiplicities; non-trivial = distinct pair not decided by the degree gate")
EXPLANATION = "verdict of linear_equivalence compared for equality with the model's linear_equivalence (spec theorem C07_spec); symmetric call compared too"
KINDS = ["same", "copy", "reload", "fired", "fired", "moved", "samedeg", "samedeg", "diffdeg", "diffgraph", "grown", "grown"]

def gen(rng, tier):
    cases = []
    for _ in range(300 if tier == "quick" else 8000):
        G, fam = common.random_connected_graph(rng, 1, 6 if tier == "quick" else 7, large_ok=True)
        n = G["n"]; D1 = common.random_divisor(rng, G); kind = rng.choice(KINDS); G2 = G; D2 = list(D1)
        if kind in ("fired", "moved"):
            D2 = common.lap_apply(G, D1, [rng.randint(-5, 5) for _ in range(n)])
        elif kind == "samedeg" and n >= 2:
            D2 = common.random_divisor(rng, G); i = rng.randrange(n); D2[i] += sum(D1) - sum(D2)
        elif kind == "diffdeg":
            D2 = list(D1); D2[rng.randrange(n)] += rng.choice([-2, -1, 1, 3])
        elif kind == "grown" and n >= 2:
            # history on one graph object: it starts as a spanning tree (queried: genus, an equivalence test), grows edge by edge into G, and is asked again
            D2 = common.lap_apply(G, D1, [rng.randint(-3, 3) for _ in range(n)]) if rng.random() < 0.4 else common.random_divisor(rng, G)
            if rng.random() < 0.8: D2[rng.randrange(n)] += sum(D1) - sum(D2)
        elif kind == "diffgraph" and G["edges"]:
            e = [list(x) for x in G["edges"]]; e[rng.randrange(len(e))][2] += 1
            G2 = dict(G); G2["edges"] = e
        if kind == "fired" and rng.random() < 0.35:
            # a cycle (or a denser core) with a pendant path: the two divisors differ by ONE chip carried along the bridges of the tail (equivalent)
            k = rng.randint(3, 5); t = rng.randint(1, 3); e = [(i, (i + 1) % k, rng.choice([1, 1, 2])) for i in range(k)] + [(k - 1 if i == 0 else k + i - 1, k + i, 1) for i in range(t)]
            if rng.random() < 0.4: e.append((0, 2, 1)) if k >= 4 else None
            G = common.mk_graph(k + t, [x for x in e if x], rng); G2 = G; n = G["n"]; D1 = common.random_divisor(rng, G)
            a = rng.randrange(k - 1, k + t); b = rng.randrange(k - 1, k + t)      # both on the tail (k-1 is its foot on the core)
            D2 = list(D1); D2[a] -= 1; D2[b] += 1; fam = "bridgechip"
        c = {"G": G, "G2": G2, "D1": D1, "D2": D2, "kind": kind, "fam": fam, "s": rng.randrange(1 << 30),
             "moves": [rng.randrange(n) for _ in range(rng.randint(0, 4))]}
        if kind in ("fired", "samedeg") and n >= 3:
            # a twin: the same names and the same valence at every name, another adjacency (two vertices of equal valence exchange their places); the same
            # two chip vectors are asked about on both graphs within one process
            M = common.matrix(G); val = [sum(r) for r in M]; pairs = [(u, v) for u in range(n) for v in range(u + 1, n) if val[u] == val[v]]
            if pairs:
                u, v = rng.choice(pairs); sw = lambda x: v if x == u else u if x == v else x
                T = common.mk_graph_like(G, [[sw(a), sw(b), k] for a, b, k in G["edges"]])
                if T["edges"] != G["edges"]: c["twin"] = T
        cases.append(c)
    return cases

def impl(c):
    from chipfiring import linear_equivalence, CFDivisor, CFGraph
    rng = random.Random(c["s"]); G = c["G"]
    if c["kind"] == "grown" and G["n"] >= 2:
        from chipfiring import is_winnable
        n = G["n"]; names = G["names"]; seen = {0}; tree = []; rest = []
        es = [list(e) for e in G["edges"]]; rng.shuffle(es); changed = True
        while changed:
            changed = False
            for e in es:
                if (e[0] in seen) != (e[1] in seen) and e not in tree: tree.append(e); seen |= {e[0], e[1]}; changed = True
        for a, b, k in es:
            if [a, b, k] in tree:
                if k > 1: rest.append([a, b, k - 1])
            else: rest.append([a, b, k])
        Gt = common.mk_graph_like(G, [[a, b, 1] for a, b, k in tree])
        g = common.build_impl_graph(Gt, rng)
        e1 = common.build_impl_divisor(Gt, c["D1"], graph=g, rng=rng); e2 = common.build_impl_divisor(Gt, c["D2"], graph=g, rng=rng)
        pre = [bool(linear_equivalence(e1, e2)), g.get_genus(), bool(is_winnable(common.build_impl_divisor(Gt, c["D1"], graph=g, rng=rng)))]
        for a, b, k in rest:
            if rng.random() < 0.5: a, b = b, a
            g.add_edge(names[a], names[b], k)
            if rng.random() < 0.3: g.get_genus()
        d1 = common.build_impl_divisor(G, c["D1"], graph=g, rng=rng)
        d2 = common.build_impl_divisor(G, c["D2"], graph=g if rng.random() < 0.5 else None, rng=rng)
        a = bool(linear_equivalence(d1, d2)); b = bool(linear_equivalence(common.build_impl_divisor(G, c["D2"], graph=g, rng=rng), common.build_impl_divisor(G, c["D1"], graph=g, rng=rng)))
        return {"fwd": a, "bwd": b, "genus_now": g.get_genus(), "pre": pre}
    d1 = common.build_impl_divisor(G, c["D1"], rng=rng)
    if c["kind"] == "same": d2 = d1
    elif c["kind"] == "reload": d2 = CFDivisor.from_dict(common.build_impl_divisor(c["G2"], c["D2"], rng=rng).to_dict())
    elif c["kind"] in ("fired", "samedeg", "diffdeg") and rng.random() < 0.5: d2 = common.build_impl_divisor(G, c["D2"], graph=d1.graph, rng=rng)
    else: d2 = common.build_impl_divisor(c["G2"], c["D2"], rng=rng)
    if c["kind"] == "moved":       # any sequence of firing moves on either argument must not change the answer
        for i, v in enumerate(c["moves"]):
            (d1 if i % 2 == 0 else d2).lending_move(G["names"][v])
    a = bool(linear_equivalence(d1, d2))
    d1b = common.build_impl_divisor(G, c["D1"], rng=rng) if rng.random() < 0.6 else common.arith_divisor(G, c["D1"], rng)      # arguments that are results of k*H + R, A - B, -(-D)
    d2b = common.build_impl_divisor(c["G2"], c["D2"], rng=rng) if rng.random() < 0.6 else common.arith_divisor(c["G2"], c["D2"], rng)
    b = bool(linear_equivalence(d2b, d1b))
    out = {"fwd": a, "bwd": b}
    if c.get("twin") and c["G2"] == c["G"]:
        T = c["twin"]; out["twin"] = bool(linear_equivalence(common.build_impl_divisor(T, c["D1"], rng=rng), common.build_impl_divisor(T, c["D2"], rng=rng)))
    return out

def model_lines(c):
    ls = [["lineq"] + common.enc_graph(c["G"]) + common.enc_list(c["D1"]) + common.enc_graph(c["G2"]) + common.enc_list(c["D2"])]
    if c.get("twin"): ls.append(["lineq"] + common.enc_graph(c["twin"]) + common.enc_list(c["D1"]) + common.enc_graph(c["twin"]) + common.enc_list(c["D2"]))
    return ls

def judge(c, r, mo):
    if "exc" in r: return [{"what": "implementation raised %s: %s" % (r["exc"], r.get("msg"))}]
    if mo[0][0] == "FUEL": return []
    want = mo[0][0] == "1"; out = []
    if "genus_now" in r["ok"] and r["ok"]["genus_now"] != common.genus(c["G"]): out.append({"what": "after growing the graph edge by edge get_genus() = %s, the genus is %d" % (r["ok"]["genus_now"], common.genus(c["G"]))})
    for k in ("fwd", "bwd"):
        if r["ok"][k] != want: out.append({"what": "linear_equivalence (%s, kind=%s) returned %s, the verified model says %s" % (k, c["kind"], r["ok"][k], want)})
    if "twin" in r["ok"] and len(mo) > 1 and mo[1][0] != "FUEL" and r["ok"]["twin"] != (mo[1][0] == "1"):
        out.append({"what": "the same two chip vectors on a twin graph (same names and valences, edges %s): linear_equivalence returned %s, the verified model says %s" % (c["twin"]["edges"], r["ok"]["twin"], mo[1][0] == "1")})
    return out[:1]

def oracle(c, r):
    if r is None or "exc" in r: return {"violates": True, "why": "no result"}
    truth = c["G"]["edges"] == c["G2"]["edges"] and O.lin_equiv(O.mk(c["G"]), c["D1"], c["D2"])
    bad = {k: v for k, v in r["ok"].items() if k in ("fwd", "bwd") and v != truth}
    if "twin" in r["ok"] and c.get("twin"):
        t2 = O.lin_equiv(O.mk(c["twin"]), c["D1"], c["D2"])
        if r["ok"]["twin"] != t2: bad["twin"] = r["ok"]["twin"]
    if "genus_now" in r["ok"] and r["ok"]["genus_now"] != common.genus(c["G"]): bad["genus_now"] = r["ok"]["genus_now"]
    return {"violates": bool(bad), "truth": truth, "wrong": bad}

def nontrivial(cases):
    return len({(str(c["G"]["edges"]), str(c["D1"]), str(c["D2"])) for c in cases if sum(c["D1"]) == sum(c["D2"]) and c["D1"] != c["D2"]})
def distribution(cases):
    d = {}
    for c in cases: d[c["kind"]] = d.get(c["kind"], 0) + 1
    return {"by_kind": d}
