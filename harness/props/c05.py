"""C05 Chip moves act by the Laplacian, commute, and conserve chips over any history."""
import random, common
RULE = ("multigraphs (also disconnected) x divisors x histories of 1..40 lending_move / borrowing_move / set_fire(S) / chip_transfer calls on CFDivisor and on the CFConfig wrappers, "
        "~15% invalid requests; set_fire sets of every size incl. empty and all vertices; non-trivial = distinct history with >= 3 accepted moves")
EXPLANATION = ("after every call: outcome class, every get_degree, get_total_degree and is_effective are compared with the model, for which lend = minus a Laplacian column, "
               "borrow its inverse, set-fire = members fired one by one in any order, fire-all = identity and conservation over any history are theorems")
def gen(rng, tier):
    out = []
    for _ in range(250 if tier == "quick" else 6000):
        if rng.random() < 0.8: G, fam = common.random_connected_graph(rng, 1, 7, large_ok=True)
        else:
            n = rng.randint(1, 6); G = common.mk_graph(n, [(a, b, rng.randint(1, 3)) for a in range(n) for b in range(a + 1, n) if rng.random() < 0.3], rng)
        n = G["n"]; q = rng.randrange(n) if rng.random() < 0.4 else -1
        ops = []
        for _ in range(rng.randint(1, 40)):
            k = rng.choice([0, 0, 1, 1, 2, 2, 2, 3]); bad = rng.random() < 0.15
            if k in (0, 1): ops.append([k, n + rng.randint(0, 1) if bad else rng.randrange(n)])
            elif k == 2:
                S = rng.sample(range(n), rng.choice([0, 1, n // 2, n, rng.randint(0, n)]))
                if bad: S.insert(rng.randrange(len(S) + 1), n + 1)
                elif q >= 0 and rng.random() < 0.5: S = [v for v in S if v != q]
                ops.append([2, S])
            else:
                a, b = rng.randrange(n), rng.randrange(n); amt = rng.choice([1, 2, 7, 2 ** 65])
                if bad:
                    how = rng.choice(["zero", "neg", "sender", "receiver", "receiver"])
                    if how == "zero": amt = 0
                    elif how == "neg": amt = -1
                    elif how == "sender": a = n; amt = 1
                    else: b = n + rng.randint(0, 1)          # a valid sender and amount, an unknown receiver
                ops.append([3, a, b, amt])
        conf = common.confusable_sets(G["names"])
        if conf and rng.random() < 0.7:      # two different firing sets whose names join to the same string, both in one history
            grp = rng.choice(conf); A, B = rng.sample(grp, 2)
            A = [v for v in A if v != q]; B = [v for v in B if v != q]
            i = rng.randrange(len(ops) + 1); ops.insert(i, [2, A]); ops.insert(rng.randrange(i + 1, len(ops) + 1), [2, B])
        c = {"G": G, "D": common.random_divisor(rng, G, big=rng.random() < 0.2), "q": q, "ops": ops, "s": rng.randrange(1 << 30)}
        if n >= 2 and rng.random() < 0.25:      # the graph object gains an edge in the middle of the history: the divisor is older than part of its graph
            a, b = rng.sample(range(n), 2); c["grow"] = [rng.randrange(len(ops) + 1), a, b, rng.randint(1, 3)]
        out.append(c)
    # appended family (own generator state, so that it never shifts the random stream of the histories above): firing sets that hold most of a larger
    # graph and leave a DEEP complement (a tail whose far end has no edge into the set)
    r2 = random.Random(rng.randrange(1 << 30))
    for _ in range(40 if tier == "quick" else 600):
        G = common.midsize_multigraph(r2) if r2.random() < 0.5 else common.mk_graph(r2.randint(7, 9), [], r2); n = G["n"]
        if not G["edges"]: G = common.mk_graph_like(G, [[i, i + 1, r2.choice([1, 1, 2])] for i in range(n - 1)])
        ops = []; M = common.matrix(G)
        for _ in range(r2.randint(2, 6)):
            far = r2.randrange(n); comp = {far}; frontier = [far]; size = r2.randint(2, 3)
            while len(comp) < size and frontier:
                v = frontier.pop(0)
                for w in range(n):
                    if M[v][w] and w not in comp and len(comp) < size: comp.add(w); frontier.append(w)
            ops.append([2, [v for v in range(n) if v not in comp]]); ops.append([r2.choice([0, 1]), r2.randrange(n)])
        out.append({"G": G, "D": common.random_divisor(r2, G), "q": -1, "ops": ops, "s": r2.randrange(1 << 30), "fam": "deepcomplement"})
    return out
def _grown(c):
    i, a, b, k = c["grow"]; return common.mk_graph_like(c["G"], [tuple(e) for e in c["G"]["edges"]] + [(a, b, k)])
def impl(c):
    from chipfiring.CFConfig import CFConfig
    rng = random.Random(c["s"]); G = c["G"]; n = G["n"]; ext = common.FreshNames(G["names"] + ["zz_unknown0", "zz_unknown1"])
    d = common.build_impl_divisor(G, c["D"], rng=rng); tgt = CFConfig(d, G["names"][c["q"]]) if c["q"] >= 0 else d
    out = []
    for j, op in enumerate(c["ops"]):
        res = "ok"
        if c.get("grow") and c["grow"][0] == j: d.graph.add_edge(G["names"][c["grow"][1]], G["names"][c["grow"][2]], c["grow"][3])
        try:
            if op[0] == 0: tgt.lending_move(ext[op[1]])
            elif op[0] == 1: tgt.borrowing_move(ext[op[1]])
            elif op[0] == 2: tgt.set_fire({ext[v] for v in op[1]})
            else: d.chip_transfer(ext[op[1]], ext[op[2]], op[3])
        except ValueError: res = "err"
        st = {"res": res, "degs": common.div_to_list(G, d), "total": d.get_total_degree(), "eff": bool(d.is_effective())}
        if rng.random() < 0.15:
            import copy
            for nm, cp in (("copy.copy", copy.copy(d)), ("copy.deepcopy", copy.deepcopy(d))):
                if common.div_to_list(G, cp) != st["degs"] or cp.get_total_degree() != st["total"]: st["copy_bad"] = "%s of the divisor holds %s (total %s), the divisor holds %s (total %s)" % (nm, common.div_to_list(G, cp), cp.get_total_degree(), st["degs"], st["total"])
        out.append(st)
    return out
TWO_STAGE = True
def _hist(G, q, D, ops):
    toks = ["dhist"] + common.enc_graph(G) + [q] + common.enc_list(D) + [len(ops)]
    for op in ops:
        if op[0] in (0, 1): toks += op
        elif op[0] == 2: toks += [2] + common.enc_list(op[1])
        else: toks += op
    return toks
def model_lines(c, r=None):
    if not c.get("grow") or c["grow"][0] >= len(c["ops"]): return [_hist(c["G"], c["q"], c["D"], c["ops"])]
    i = c["grow"][0]; ls = [_hist(c["G"], c["q"], c["D"], c["ops"][:i])]
    # second segment: the grown graph, starting from the chips the implementation holds after move #i-1 (verified against the model by the first segment)
    if r and "ok" in r and len(r["ok"]) >= i: ls.append(_hist(_grown(c), c["q"], r["ok"][i - 1]["degs"] if i > 0 else c["D"], c["ops"][i:]))
    return ls
def judge(c, r, mo):
    if "exc" in r: return [{"what": "implementation raised %s: %s" % (r["exc"], r.get("msg"))}]
    steps = " ".join(mo[0]).split("|")[:-1] + (" ".join(mo[1]).split("|")[:-1] if len(mo) > 1 else [])
    for i, (st, ir) in enumerate(zip(steps, r["ok"])):
        a, b = st.split(";"); a = a.split(); b = b.split()
        res = a[0]; degs = [int(x) for x in a[1:]]; total = int(b[0]); eff = b[1] == "1"
        if c["q"] >= 0 and c["ops"][i][0] == 3: pass
        if ir["res"] != res: return [{"what": "move #%d %s: implementation %s, model %s" % (i, c["ops"][i], ir["res"], res)}]
        if ir["degs"] != degs: return [{"what": "after move #%d %s: degrees %s, model %s" % (i, c["ops"][i], ir["degs"], degs)}]
        if ir["total"] != total or ir["eff"] != eff: return [{"what": "after move #%d: total/effective %s/%s, model %s/%s" % (i, ir["total"], ir["eff"], total, eff)}]
        if ir.get("copy_bad"): return [{"what": "after move #%d: %s" % (i, ir["copy_bad"])}]
    return []
def oracle(c, r):
    if r is None or "exc" in r: return {"violates": True, "why": "raised"}
    M = common.matrix(c["G"]); n = c["G"]["n"]; D = list(c["D"]); q = c["q"]; tot0 = sum(D)
    for i, (op, ir) in enumerate(zip(c["ops"], r["ok"])):
        if ir.get("copy_bad"): return {"violates": True, "why": ir["copy_bad"]}
        if c.get("grow") and c["grow"][0] == i: M = common.matrix(_grown(c))
        exp = "ok"; E = list(D)
        if op[0] in (0, 1):
            v = op[1]
            if v >= n: exp = "err"
            else:
                sg = -1 if op[0] == 0 else 1
                for w in range(n): E[w] -= sg * M[v][w]
                E[v] += sg * sum(M[v])
        elif op[0] == 2:
            if any(v >= n or v == q for v in op[1]): exp = "err"
            else:
                S = set(op[1])
                for v in S:
                    for w in range(n):
                        if w not in S: E[v] -= M[v][w]; E[w] += M[v][w]
        else:
            if op[3] <= 0 or op[1] >= n or op[2] >= n: exp = "err"
            else: E[op[1]] -= op[3]; E[op[2]] += op[3]
        if exp == "err": E = D
        if ir["res"] != exp or ir["degs"] != E or ir["total"] != tot0 or sum(ir["degs"]) != tot0:
            return {"violates": True, "why": "move #%d %s: expected %s %s (total %d), observed %s %s total %s" % (i, op, exp, E, tot0, ir["res"], ir["degs"], ir["total"])}
        D = E
    return {"violates": False}
def nontrivial(cases): return len({str((c["G"]["edges"], c["D"], c["ops"])) for c in cases if len(c["ops"]) >= 3})
