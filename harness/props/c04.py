"""C04 Gonality is the least degree of a rank>=1 divisor; strategies are genuine."""
import random, common, oracle as O
RULE = ("connected multigraphs (trees, cycles, complete, wheels, multi-edge incl. banana graphs and doubled cycles) on <=5 (quick) / <=6 (thorough) vertices x all max_gonality cut-offs 0..|V| "
        "x {find_strategies on, off}; per-sink searches with long candidate lists (15/16-cycles, 3x3 grid, K_{4,4}, K_6, dense 7-vertex multigraphs); random placements x all opponent vertices; every sink for the per-sink search; non-trivial = distinct graph with >= 3 vertices")
EXPLANATION = ("gonality value (both flags, every cut-off), single games, strategy tests (works + set of losing vertices) and the per-sink result (k and the SET of multisets) are compared for equality "
               "with the model (theorems C04_*); the reported winning_strategies go through the checker implied by C04_gonality: non-empty iff a gonality was found, each effective, exactly k chips, rank >= 1")
def gen(rng, tier):
    out = []
    for i in range(150 if tier == "quick" else 1500):
        if rng.random() < 0.25:
            n = rng.choice([2, 3, 4]); kind = rng.choice(["banana", "dcycle", "dpath"])
            if kind == "banana": G = common.mk_graph(2, [(0, 1, rng.randint(1, 5))], rng)
            elif kind == "dcycle": G = common.mk_graph(4, [(0, 1, 2), (1, 2, 1), (2, 3, 2), (3, 0, 1)], rng)
            else: G = common.mk_graph(n, [(i, i + 1, rng.randint(1, 3)) for i in range(n - 1)], rng)
            fam = kind
        else: G, fam = common.random_connected_graph(rng, 1, 5 if tier == "quick" else 6)
        n = G["n"]
        P = [0] * n
        for _ in range(rng.randint(1, 4)): P[rng.randrange(n)] += 1
        out.append({"G": G, "fam": fam, "maxg": rng.choice([None, None] + list(range(0, n + 1))), "P": P, "v": rng.randrange(n), "q": rng.randrange(n),
                    "qmax": rng.choice([None, None, 0, 1, 2, n]), "s": rng.randrange(1 << 30),
                    "grow": ([rng.randrange(n), rng.randrange(n), rng.randint(1, 2)] if n >= 2 and rng.random() < 0.4 else None)})
        if out[-1]["grow"] and out[-1]["grow"][0] == out[-1]["grow"][1]: out[-1]["grow"] = None
    # appended families (own generator state: extending them never shifts the random stream of the cases above)
    r2 = random.Random(rng.randrange(1 << 30))
    for i in range(10 if tier == "quick" else 60):
        # per-sink searches whose candidate lists are LONG (> 100 multisets at the deciding size): only the per-sink entry points are run on these
        kind = ["cycle15", "grid33", "k44", "k6", "dense7"][i % 5]
        if kind == "cycle15": n = r2.randint(15, 16); G = common.mk_graph(n, [(i, (i + 1) % n, 1) for i in range(n)], r2); qm = 2
        elif kind == "grid33": G = common.mk_graph(9, [(3 * r + c, 3 * r + c + 1, 1) for r in range(3) for c in range(2)] + [(3 * r + c, 3 * r + c + 3, 1) for r in range(2) for c in range(3)], r2); qm = 3
        elif kind == "k44": G = common.mk_graph(8, [(a, 4 + b, 1) for a in range(4) for b in range(4)], r2); qm = 4
        elif kind == "k6": G = common.mk_graph(6, [(a, b, 1) for a in range(6) for b in range(a + 1, 6)], r2); qm = None
        else:
            e = {(a, b): r2.choice([1, 1, 2]) for a in range(7) for b in range(a + 1, 7) if r2.random() < 0.75}
            for v in range(1, 7): e.setdefault((v - 1, v), 1)
            G = common.mk_graph(7, [(a, b, k) for (a, b), k in sorted(e.items())], r2); qm = 4
        out.append({"G": G, "fam": "bigsink-" + kind, "only_ps": True, "q": r2.randrange(G["n"]), "qmax": qm, "s": r2.randrange(1 << 30), "maxg": None, "P": [0] * G["n"], "v": 0, "grow": None})
    for i in range(40 if tier == "quick" else 400):
        # placements STACKED on a vertex of large valence next to emptier, lower-valence vertices (irregular graphs: hubs, wheels, random), with a stack
        # between the smallest neighbouring valence and the hub's own valence; and stacked placements on the support {v, v+1} the batch also asks about
        G, fam = common.random_connected_graph(r2, 4, 6); n = G["n"]; M = common.matrix(G); val = [sum(r) for r in M]
        P = [0] * n; u = max(range(n), key=lambda v: (val[v], r2.random()))
        if i % 2 == 0:
            nb = [val[w] for w in range(n) if M[u][w]]; lo = min(nb) if nb else 1
            P[u] = r2.randint(min(lo, max(1, val[u] - 1)), max(1, val[u] - 1)); v = r2.choice([w for w in range(n) if w != u])
            if r2.random() < 0.4: P[r2.randrange(n)] += 1
        else:
            v = r2.randrange(n); P[v] = r2.randint(1, 3); P[(v + 1) % n] = r2.randint(1, 3)
        out.append({"G": G, "fam": "stack-" + fam, "maxg": None, "P": P, "v": v, "q": r2.randrange(n), "qmax": r2.choice([None, 1, 2]), "s": r2.randrange(1 << 30), "grow": None})
    return out
def impl(c):
    from chipfiring.CFGonality import gonality, play_gonality_game, CFGonality
    from chipfiring.CFGonalityDhar import enhanced_dhar_gonality_test
    from chipfiring import CFDivisor
    rng = random.Random(c["s"]); G = c["G"]; names = G["names"]; idx = {x: i for i, x in enumerate(names)}
    g = common.build_impl_graph(G, rng)
    if c.get("only_ps"):
        from chipfiring.CFGonalityDhar import batch_gonality_analysis
        k, S = enhanced_dhar_gonality_test(g, names[c["q"]], c["qmax"]); r0 = list(batch_gonality_analysis([(g, names[c["q"]])], c["qmax"]).values())[0]
        return {"persink": [k, sorted(sorted(idx[x] for x in s) for s in S)], "ps_analysis": [r0["gonality"], sorted(sorted(idx[x] for x in s) for s in r0["minimal_strategies"])]}
    out = _battery(c, G, g, names, idx)
    if c.get("grow"):       # history: the SAME graph object grows an edge, then every entry point is asked again (answers must be for the graph as it is now)
        a, b, k = c["grow"]; g.add_edge(names[a], names[b], k)
        out["after"] = _battery(c, G, g, names, idx)
    return out
def grown(c):
    G = c["G"]; a, b, k = c["grow"]
    return dict(c, G=common.mk_graph_like(G, G["edges"] + [[a, b, k]]), grow=None)
def _battery(c, G, g, names, idx):
    from chipfiring.CFGonality import gonality, play_gonality_game, CFGonality
    from chipfiring.CFGonalityDhar import enhanced_dhar_gonality_test
    from chipfiring import CFDivisor
    out = {}
    for fs in (True, False):
        res = gonality(g, c["maxg"], find_strategies=fs)
        out["gon_%d" % fs] = res.gonality; out["strat_%d" % fs] = [common.div_to_list(G, s) for s in res.winning_strategies]
    pl = CFDivisor(g, [(names[i], x) for i, x in enumerate(c["P"])])
    gr = play_gonality_game(g, sum(c["P"]), pl, names[c["v"]]); out["game"] = [bool(gr.player_a_wins), bool(gr.winnability)]
    works, losing = CFGonality(g).test_n_chip_strategy(sum(c["P"]), pl); out["strategy"] = [bool(works), sorted(idx[x] for x in losing)]
    out["placement_unchanged"] = common.div_to_list(G, pl) == c["P"]
    k, S = enhanced_dhar_gonality_test(g, names[c["q"]], c["qmax"])
    out["persink"] = [k, sorted(sorted(idx[x] for x in s) for s in S)]
    # the per-sink object used directly: single strategy tests and a batch (with its cache: the same strategy asked again, in another order of names)
    from chipfiring.CFGonalityDhar import GonalityDharAlgorithm, batch_gonality_analysis
    n = G["n"]; alg = GonalityDharAlgorithm(g, CFDivisor(g, [(x, 0) for x in names]), names[c["q"]])
    st = [names[i] for i in range(n) for _ in range(c["P"][i])]; alt = [names[(c["v"] + j) % n] for j in range(min(2, n))]
    out["ps_single"] = bool(alg.test_strategy(list(st)))
    out["ps_batch"] = [bool(x) for x in alg.test_strategy_batch([list(alt), list(st), list(reversed(st)), list(alt)])]
    out["ps_single_again"] = bool(alg.test_strategy(list(reversed(st))))
    out["ps_stack"] = [bool(x) for x in alg.test_strategy_batch([[names[c["v"]]] * k for k in (1, 2, 3, 2, 1)])]       # same support, different multiplicities, one cache
    kk = 1 + (c["v"] + c["q"]) % max(1, n)       # a suspected gonality in 1..n
    vb = CFGonality(g).verify_gonality_bounds(kk); out["verify_bounds"] = [kk, bool(vb[0]), bool(vb[1])]
    ba = batch_gonality_analysis([(g, names[c["q"]])], c["qmax"]); r0 = list(ba.values())[0]
    out["ps_analysis"] = [r0["gonality"], sorted(sorted(idx[x] for x in s) for s in r0["minimal_strategies"])]     # (its auxiliary num_edges field is total_valence // 2, i.e. half the edge count: outside C04, noted in DESIGN.md)
    return out
def model_lines(c):
    g = common.enc_graph(c["G"]); n = c["G"]["n"]; mg = n if c["maxg"] is None else c["maxg"]
    qm = max(0, (n - 1) if c["qmax"] is None else c["qmax"])
    alt = [0] * n
    for j in range(min(2, n)): alt[(c["v"] + j) % n] += 1
    return [["gon"] + g + [mg, 1], ["gon"] + g + [mg, 0], ["game"] + g + common.enc_list(c["P"]) + [c["v"]], ["strat"] + g + common.enc_list(c["P"]), ["persink"] + g + [c["q"], qm],
            ["game"] + g + common.enc_list(c["P"]) + [c["q"]], ["game"] + g + common.enc_list(alt) + [c["q"]], ["gon"] + g + [n, 0]] + \
           [["game"] + g + common.enc_list([k * (i == c["v"]) for i in range(n)]) + [c["q"]] for k in (1, 2, 3)]
NBASE = 11
def _strats(tok, n):
    k = int(tok[0]); cnt = int(tok[1]); xs = [int(x) for x in tok[2:]]
    return k, [xs[i * n:(i + 1) * n] for i in range(cnt)]
def judge(c, r, mo):
    if "exc" in r: return [{"what": "implementation raised %s: %s" % (r["exc"], r.get("msg"))}]
    if any(x[0] == "FUEL" for x in mo): return []
    o = r["ok"]; n = c["G"]["n"]; out = []
    for fs, line in ((1, mo[0]), (0, mo[1])):
        k, ms = _strats(line, n)
        if o["gon_%d" % fs] != k: out.append({"what": "gonality(max=%s, find_strategies=%s) = %s, verified model %d" % (c["maxg"], bool(fs), o["gon_%d" % fs], k)})
        st = o["strat_%d" % fs]
        if (k > 0) != (len(st) > 0): out.append({"what": "winning_strategies %s but gonality %d" % (st, k)})
        c.setdefault("_chk", []).extend(st)
        for s in st:
            if not isinstance(s, list) or min(s) < 0 or sum(s) != k: out.append({"what": "reported strategy %s is not an effective divisor with exactly %d chips" % (s, k)})
    if o["game"] != [mo[2][0] == "1"] * 2: out.append({"what": "play_gonality_game(P=%s, v=%d) = %s, model %s" % (c["P"], c["v"], o["game"], mo[2][0])})
    kk = int(mo[3][1]); los = sorted(int(x) for x in mo[3][2:2 + kk])
    if o["strategy"] != [mo[3][0] == "1", los]: out.append({"what": "test_n_chip_strategy(P=%s) = %s, model %s" % (c["P"], o["strategy"], [mo[3][0] == "1", los])})
    if not o["placement_unchanged"]: out.append({"what": "strategy evaluation modified the placement divisor"})
    pk, pS = _strats(mo[4], n); pS = sorted(sorted(v for v in range(n) for _ in range(P[v])) for P in pS)
    if o["persink"] != [pk, pS]: out.append({"what": "enhanced_dhar_gonality_test(q=%d, max=%s) = %s, model %s" % (c["q"], c["qmax"], o["persink"], [pk, pS])})
    if "ps_single" in o:
        wP = mo[5][0] == "1"; wA = mo[6][0] == "1"
        if o["ps_single"] != wP or o["ps_single_again"] != wP: out.append({"what": "GonalityDharAlgorithm.test_strategy(P=%s, q=%d) = %s / %s, winnability of P - q is %s" % (c["P"], c["q"], o["ps_single"], o["ps_single_again"], wP)})
        if o["ps_batch"] != [wA, wP, wP, wA]: out.append({"what": "test_strategy_batch = %s, expected %s" % (o["ps_batch"], [wA, wP, wP, wA])})
        gt = int(mo[7][0]); kk = o["verify_bounds"][0]
        if o["verify_bounds"][1:] != [gt <= kk, kk <= 1 or gt >= kk]: out.append({"what": "verify_gonality_bounds(%d) = %s on a graph of gonality %d (expected %s)" % (kk, o["verify_bounds"][1:], gt, [gt <= kk, kk <= 1 or gt >= kk])})
        if o["ps_analysis"] != [pk, pS]: out.append({"what": "batch_gonality_analysis = %s, model %s" % (o["ps_analysis"], [pk, pS])})
        if "ps_stack" in o:
            w = [mo[8 + k][0] == "1" for k in range(3)]; exp = [w[0], w[1], w[2], w[1], w[0]]
            if o["ps_stack"] != exp: out.append({"what": "test_strategy_batch on 1, 2, 3, 2, 1 chips stacked at vertex %d (q=%d) = %s, winnability of the placements minus q is %s" % (c["v"], c["q"], o["ps_stack"], exp)})
    return out[:2]
TWO_STAGE = True
_ml = model_lines
def _ml2(c, o):
    ls = _ml(c)
    for fs in (1, 0):
        for s in o["strat_%d" % fs]:
            if isinstance(s, list): ls.append(["strat"] + common.enc_graph(c["G"]) + common.enc_list(s))
    return ls
def _psline(c):
    n = c["G"]["n"]; return ["persink"] + common.enc_graph(c["G"]) + [c["q"], max(0, (n - 1) if c["qmax"] is None else c["qmax"])]
def model_lines(c, r):
    if c.get("only_ps"): return [_psline(c)]
    if "ok" not in r: return _ml(c)
    ls = _ml2(c, r["ok"])
    if c.get("grow") and "after" in r["ok"]: ls += _ml2(grown(c), r["ok"]["after"])
    return ls
_j = judge
def _j2(c, o, mo, tag):
    out = _j(c, {"ok": o}, mo[:NBASE])
    if not out:
        for line in mo[NBASE:]:
            if line[0] != "1": out.append({"what": "a reported winning strategy does not beat every opponent vertex (model strategy test: %s)" % line})
    for x in out: x["what"] = tag + x["what"]
    return out
def judge(c, r, mo):
    if "exc" in r: return _j(c, r, mo)
    if c.get("only_ps"):
        if mo[0][0] == "FUEL": return []
        n = c["G"]["n"]; pk, pS = _strats(mo[0], n); pS = sorted(sorted(v for v in range(n) for _ in range(P[v])) for P in pS); o = r["ok"]
        return [{"what": "%s(q=%d, max=%s) on a %d-vertex graph = (%s, %d strategies), model (%d, %d strategies)%s" % (nm, c["q"], c["qmax"], n, o[f][0], len(o[f][1]), pk, len(pS),
                         "; missing from the answer e.g. %s" % [x for x in pS if x not in o[f][1]][:3] if o[f][0] == pk else "")}
                for f, nm in (("persink", "enhanced_dhar_gonality_test"), ("ps_analysis", "batch_gonality_analysis")) if o[f] != [pk, pS]][:2]
    k1 = len(_ml2(c, r["ok"]))
    out = _j2(c, r["ok"], mo[:k1], "")
    if c.get("grow") and "after" in r["ok"] and not out:
        out = _j2(grown(c), r["ok"]["after"], mo[k1:], "after add_edge%s on the same graph object: " % (tuple(c["grow"]),))
    return out[:2]
def oracle(c, r):
    if r is None or "exc" in r: return {"violates": True, "why": "raised / no answer"}
    if c.get("only_ps"):
        exp = _ps_truth(c); why = ["%s = (%s, %d strategies), by definition (%d, %d strategies)" % (f, r["ok"][f][0], len(r["ok"][f][1]), exp[0], len(exp[1])) for f in ("persink", "ps_analysis") if r["ok"][f] != exp]
        return {"violates": bool(why), "why": why}
    a = _oracle1(c, r["ok"])
    if not a["violates"] and c.get("grow") and "after" in r["ok"]:
        a = _oracle1(grown(c), r["ok"]["after"]); a["why"] = ["after add_edge: " + w for w in a["why"]]
    return a
def _ps_truth(c):
    import itertools
    m = O.mk(c["G"]); n = len(m); q = c["q"]; qm = max(0, (n - 1) if c["qmax"] is None else c["qmax"]); exp = [qm + 1, []]
    for k in range(1, qm + 1):
        S = [list(cmb) for cmb in itertools.combinations_with_replacement([v for v in range(n) if v != q], k)
             if O.winnable(m, [sum(1 for x in cmb if x == i) - (i == q) for i in range(n)])]
        if S: exp = [k, sorted(S)]; break
    return exp
def _oracle1(c, o):
    r = {"ok": o}
    m = O.mk(c["G"]); n = len(m); o = r["ok"]; why = []
    mg = n if c["maxg"] is None else c["maxg"]; truth = O.gonality(m, mg)
    for fs in (1, 0):
        if o["gon_%d" % fs] != truth: why.append("gonality %s, truth %d" % (o["gon_%d" % fs], truth))
        for s in o["strat_%d" % fs]:
            if sum(s) != truth or min(s) < 0 or not O.strategy_ok(m, s): why.append("strategy %s not genuine" % s)
    P = c["P"]; w = O.winnable(m, [P[i] - (i == c["v"]) for i in range(n)])
    if o["game"] != [w, w]: why.append("game wrong")
    los = [v for v in range(n) if not O.winnable(m, [P[i] - (i == v) for i in range(n)])]
    if o["strategy"] != [not los, los]: why.append("strategy test wrong: %s vs losing %s" % (o["strategy"], los))
    import itertools
    q = c["q"]; qm = max(0, (n - 1) if c["qmax"] is None else c["qmax"]); exp = [qm + 1, []]
    for k in range(1, qm + 1):
        S = [list(cmb) for cmb in itertools.combinations_with_replacement([v for v in range(n) if v != q], k)
             if O.winnable(m, [sum(1 for x in cmb if x == i) - (i == q) for i in range(n)])]
        if S: exp = [k, sorted(S)]; break
    if o["persink"] != exp: why.append("per-sink result %s, truth %s" % (o["persink"], exp))
    if "ps_single" in o:      # the per-sink object used directly: a strategy wins against q iff (placement - q) is winnable
        alt = [(c["v"] + j) % n for j in range(min(2, n))]
        wP = O.winnable(m, [P[i] - (i == q) for i in range(n)]); wA = O.winnable(m, [sum(1 for x in alt if x == i) - (i == q) for i in range(n)])
        if o["ps_single"] != wP or o["ps_single_again"] != wP: why.append("test_strategy(P=%s, q=%d) = %s / %s, winnability of P - q is %s" % (P, q, o["ps_single"], o["ps_single_again"], wP))
        if o["ps_batch"] != [wA, wP, wP, wA]: why.append("test_strategy_batch = %s, by definition %s" % (o["ps_batch"], [wA, wP, wP, wA]))
        if o["ps_analysis"] != exp: why.append("batch_gonality_analysis = %s, truth %s" % (o["ps_analysis"], exp))
        if "ps_stack" in o:
            w = [O.winnable(m, [k * (i == c["v"]) - (i == q) for i in range(n)]) for k in (1, 2, 3)]
            if o["ps_stack"] != [w[0], w[1], w[2], w[1], w[0]]: why.append("test_strategy_batch on stacked placements = %s, by definition %s" % (o["ps_stack"], [w[0], w[1], w[2], w[1], w[0]]))
        kk = o["verify_bounds"][0]; gt = O.gonality(m, n)
        if o["verify_bounds"][1:] != [gt <= kk, kk <= 1 or gt >= kk]: why.append("verify_gonality_bounds(%d) = %s on a graph of gonality %d" % (kk, o["verify_bounds"][1:], gt))
    return {"violates": bool(why), "why": why}
def nontrivial(cases): return len({str(c["G"]["edges"]) for c in cases if c["G"]["n"] >= 3})
