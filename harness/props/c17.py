"""C17 Answers depend only on the mathematical input, not names, order or hash seed."""
import random, common, oracle as O
RULE = ("each mathematical input (connected multigraph, divisor D, second divisor E) is presented in 5 ways: canonical; three shuffles of vertex / edge / degree lists with swapped endpoints and "
        "multiplicities split into repeated entries or later add_edge calls; a random renaming into another naming style (answers mapped back through the inverse); every presentation runs under "
        "every hash seed; non-trivial = distinct input with a multi-edge or a tie for the minimum")
EXPLANATION = ("winnability (three entry points), reduced divisor, rank, gonality and linear equivalence of every presentation must equal the model's single answer (which is a function of the matrix "
               "and the chip vector only; theorems C17_*); with a tie for the minimum the reduced divisor may be any of the representatives unless the presentation keeps the name order")
NV = 5
def gen(rng, tier):
    out = []
    NA, NB = (45, 800) if tier == "quick" else (700, 4000)     # NB further inputs without the (expensive) rank / gonality questions
    NC = 160 if tier == "quick" else 1500                       # of which NC small multigraphs asked for their gonality (both search variants) under renamings
    for it in range(NA + NB):
        G, fam = common.random_connected_graph(rng, 2, 5 if it < NA else 6) if not NA <= it < NA + NC else common.random_connected_graph(rng, 3, 5); n = G["n"]
        D = common.random_divisor(rng, G) if (it < NA or rng.random() < 0.5) else [rng.randint(-3, 4) for _ in range(n)]
        E = common.lap_apply(G, D, [rng.randint(-2, 2) for _ in range(n)]) if rng.random() < 0.5 else common.random_divisor(rng, G)
        small = common.genus(G) <= 3 and sum(D) <= 5 and max(abs(x) for x in D) <= 6
        base = {"G": G, "D": D, "E": E, "rank": small and it < NA, "gon": (n <= 4 and it < NA) or (NA <= it < NA + NC and n <= 5 and sum(k for _, _, k in G["edges"]) <= 11)}
        for variant in range(NV):
            c = dict(base); c["variant"] = variant; c["s"] = rng.randrange(1 << 30)
            if variant == NV - 1:
                perm = list(range(n)); rng.shuffle(perm); style = rng.randrange(len(common.NAME_STYLES))
                c["perm"] = perm; c["style"] = style
            out.append(c)
    return out
def impl(c):
    from chipfiring import EWD, is_winnable, q_reduction, linear_equivalence
    from chipfiring.CFGonality import gonality
    import chipfiring.CFRank as R
    R.Pool = common.RaisingPool
    rng = random.Random(c["s"]) if c["variant"] > 0 else None
    G = c["G"]; n = G["n"]
    if "perm" in c:
        # renamed presentation: vertex i is called newnames[perm[i]]; ids of the renamed graph follow the sorted new names
        new = sorted(common.NAME_STYLES[c["style"]](n)); name_of = [new[c["perm"][i]] for i in range(n)]
        G2 = {"n": n, "names": new, "edges": sorted([min(c["perm"][a], c["perm"][b]), max(c["perm"][a], c["perm"][b]), k] for a, b, k in G["edges"])}
        to2 = lambda X: [X[c["perm"].index(j)] for j in range(n)]; back = lambda X: [X[c["perm"][i]] for i in range(n)]
    else:
        G2 = G; to2 = back = lambda X: list(X)
    D2, E2 = to2(c["D"]), to2(c["E"]); out = {}
    mk = lambda X: common.build_impl_divisor(G2, X, rng=rng)
    if c["variant"] == 3 and len(G2["edges"]) >= 2:
        # one more way of supplying the same edges: part of them to the constructor, a question asked, the others through add_edge afterwards; every
        # answer below is then asked on this one graph object
        es = [list(e) for e in G2["edges"]]; rng.shuffle(es); cut = rng.randint(1, len(es) - 1); names2 = G2["names"]
        first = common.mk_graph_like(G2, es[:cut])
        if common.is_connected(first):
            gobj = common.build_impl_graph(first, rng)
            probe = common.build_impl_divisor(first, D2, graph=gobj, rng=rng); is_winnable(probe); q_reduction(common.build_impl_divisor(first, D2, graph=gobj, rng=rng)); gobj.get_genus()
            if first["n"] <= 4: gonality(gobj, find_strategies=False)
            for a, b, k in es[cut:]:
                if rng.random() < 0.5: a, b = b, a
                gobj.add_edge(names2[a], names2[b], k)
            mk = lambda X: common.build_impl_divisor(G2, X, graph=gobj, rng=rng)
    d = mk(D2); out["plain"] = bool(EWD(d.graph, d)[0]); d = mk(D2); out["opt"] = bool(EWD(d.graph, d, optimized=True)[0]); out["isw"] = bool(is_winnable(mk(D2)))
    out["qred"] = back(common.div_to_list(G2, q_reduction(mk(D2))))
    out["lineq"] = bool(linear_equivalence(mk(D2), mk(E2)))
    if n <= 5 and max(abs(x) for x in D2) <= 6:       # the greedy solver's verdict is a winnability answer too
        from chipfiring.CFGreedyAlgorithm import GreedyAlgorithm
        dg = mk(D2); out["greedy"] = bool(GreedyAlgorithm(dg.graph, dg).play()[0])
    if c["rank"]: out["rank"] = R.rank(mk(D2)).rank
    if c["gon"]:
        out["gon"] = gonality(mk(D2).graph if c["variant"] == 3 else common.build_impl_graph(G2, rng), find_strategies=False).gonality
        out["gon_s"] = gonality(common.build_impl_graph(G2, rng), find_strategies=True).gonality        # the search that also collects strategies
    return out
def model_lines(c):
    g = common.enc_graph(c["G"]); D = common.enc_list(c["D"]); n = c["G"]["n"]
    ls = [["ewd"] + g + D + [0], ["lineq"] + g + D + g + common.enc_list(c["E"]), ["rank"] + g + D + [0] if c["rank"] else ["info"] + g, ["gon"] + g + [n, 0] if c["gon"] else ["info"] + g]
    for q in common.min_vertices(c["D"]): ls.append(["ewdq"] + g + [q] + D)
    ls.append(["greedy"] + g + common.enc_list(list(range(n))) + D)      # last line: the greedy solver has a budget of 10*|V| moves, its verdict is compared with the model's greedy run
    return ls
def judge(c, r, mo):
    if "exc" in r: return [{"what": "presentation %d raised %s: %s" % (c["variant"], r["exc"], r.get("msg"))}]
    if any(x[0] == "FUEL" for x in mo): return []
    o = r["ok"]; n = c["G"]["n"]; out = []; w = mo[0][0] == "1"; tag = "presentation %d%s" % (c["variant"], " (renamed)" if "perm" in c else "")
    gl = mo[-1]; mo = mo[:-1]
    if "greedy" in o and gl[0] != "FUEL" and o["greedy"] != (gl[0] != "fail"):
        out.append({"what": "%s: greedy solver's verdict %s, the model's greedy run (budget 10*|V| moves) says %s" % (tag, o["greedy"], gl[0] != "fail")})
    for k in ("plain", "opt", "isw"):
        if k in o and o[k] != w: out.append({"what": "%s: verdict %s=%s, the answer for this multigraph and divisor is %s" % (tag, k, o[k], w)})
    if o["lineq"] != (mo[1][0] == "1"): out.append({"what": "%s: linear_equivalence=%s, answer %s" % (tag, o["lineq"], mo[1][0])})
    if c["rank"] and o["rank"] != int(mo[2][0]): out.append({"what": "%s: rank=%s, answer %s" % (tag, o["rank"], mo[2][0])})
    for k in ("gon", "gon_s"):
        if c["gon"] and o[k] != int(mo[3][0]): out.append({"what": "%s: gonality%s=%s, answer %s" % (tag, " (find_strategies=True)" if k == "gon_s" else "", o[k], mo[3][0])})
    mins = common.min_vertices(c["D"]); cands = [[int(x) for x in line[2:2 + n]] for line in mo[4:]]
    if "perm" in c and len(mins) > 1:
        if o["qred"] not in cands: out.append({"what": "%s: reduced divisor %s is not a q-reduced representative for a minimum-degree sink" % (tag, o["qred"])})
    elif o["qred"] != cands[0]: out.append({"what": "%s: reduced divisor %s, answer %s (sink = least-named minimum-degree vertex %d)" % (tag, o["qred"], cands[0], mins[0])})
    return out[:2]
def oracle(c, r):
    if r is None or "exc" in r: return {"violates": True, "why": "raised / no answer"}
    m = O.mk(c["G"]); o = r["ok"]; why = []
    w = O.winnable(m, c["D"])
    if (o["plain"], o["opt"], o["isw"]) != (w, w, w): why.append("winnability %s, truth %s" % ((o["plain"], o["opt"], o["isw"]), w))
    if o["lineq"] != O.lin_equiv(m, c["D"], c["E"]): why.append("linear equivalence wrong")
    if c["rank"] and o["rank"] != O.rank(m, c["D"]): why.append("rank wrong")
    if c["gon"] and (o["gon"] != O.gonality(m) or o.get("gon_s") != O.gonality(m)): why.append("gonality wrong")
    if not any(o["qred"] == O.qreduce(m, c["D"], q) for q in common.min_vertices(c["D"])): why.append("reduced divisor is not a reduced representative")
    if "greedy" in o:       # reference greedy run from the definition: borrow at an indebted vertex, budget 10*|V| moves (the number of moves does not depend on the order)
        n = len(m); E = list(c["D"]); moves = 0
        while min(E) < 0 and moves < 10 * n:
            v = next(i for i in range(n) if E[i] < 0); moves += 1
            for x in range(n): E[x] -= m[v][x]
            E[v] += sum(m[v])
        if o["greedy"] != (min(E) >= 0): why.append("greedy solver's verdict %s, a reference run within the budget gives %s" % (o["greedy"], min(E) >= 0))
    return {"violates": bool(why), "why": why, "note": "two presentations of one input that answer differently are themselves the replay"}
def nontrivial(cases): return len({str((c["G"]["edges"], c["D"])) for c in cases if any(k > 1 for _, _, k in c["G"]["edges"]) or c["D"].count(min(c["D"])) > 1})
def distribution(cases): return {"inputs": len(cases) // NV, "presentations_per_input": NV, "with_rank": sum(1 for c in cases if c["rank"]) // NV, "with_gonality": sum(1 for c in cases if c["gon"]) // NV}
