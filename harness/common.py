"""Shared machinery of the chipfiring verification harness (see /verif/DESIGN.md section 4)."""
import hashlib, json, os, random, subprocess, sys, time, itertools

VERIF = os.path.dirname(os.path.dirname(os.path.abspath(__file__)))
REPO = os.environ.get("CF_REPO", "/repo")
PY = "/venv/bin/python"
COQ = os.path.join(VERIF, "coq")
DRIVER = os.path.join(VERIF, "ocaml", "_build", "driver")
# the registered commands never set these two: they exist for tools/mutants.py, which runs many checks at once against scratch copies of /repo
EVID = os.environ.get("CF_EVIDENCE_DIR") or os.path.join(VERIF, "evidence")
REPLAYS = os.environ.get("CF_REPLAY_DIR") or os.path.join(VERIF, "replays")
SCRATCH = os.path.join(VERIF, ".scratch")

# ---------------------------------------------------------------- graphs
NAME_STYLES = [
    lambda n: ["v%d" % i for i in range(n)],
    lambda n: list("ABCDEFGHIJKLMNOP")[:n],
    lambda n: ["Alice", "Bob", "Charlie", "Elise", "Dave", "Frank", "Gina", "Hal", "Ivy", "Jo"][:n],
    lambda n: [str(10 - i) for i in range(n)],          # "10" < "9" as strings: sorted order differs from numeric
    lambda n: ["node_%s" % c for c in "zyxwvutsrq"][:n],
    lambda n: ["a b", "a.b", "Z", "z", "_", "é", "0", "~", "a", "B"][:n],
    lambda n: ["a", "ab", "bc", "c", "b", "abc", "ca", "1", "12", "2"][:n],     # prefix-related names: different sets of names can concatenate to the same string
    lambda n: ["", " ", "x", "  ", "\t", "y", " x", "x ", "0", "None"][:n],         # empty and blank names, names that differ only by surrounding blanks
    lambda n: ["a", "b-c", "a-b", "c", "x", "y-z", "x-y", "z", "p", "p-"][:n],      # separators inside names: joined labels of different pairs collide
    lambda n: ["v9", "v10", "v1", "v01", "x2", "x10", "1", "01", "007", "7"][:n],  # numbers inside names: string order differs from numeric order, leading zeros
]
def confusable_sets(names, maxsize=3):
    """groups of different vertex-id sets whose sorted names concatenate to the same string (keys built by joining names confuse them)"""
    import itertools
    byk = {}
    for k in range(1, maxsize + 1):
        for S in itertools.combinations(range(len(names)), k):
            byk.setdefault("".join(sorted(names[i] for i in S)), []).append(list(S))
    return [v for v in byk.values() if len(v) > 1]

def fresh(s):
    """an equal string that is a different object (names arriving from files, f-strings or concatenation are never the caller's own objects)"""
    return "".join(list(s)) if isinstance(s, str) and len(s) > 1 else s
class FreshNames(list):
    """a list of names whose items are handed out as fresh string objects on every access"""
    def __getitem__(self, i):
        x = list.__getitem__(self, i)
        return [fresh(y) for y in x] if isinstance(i, slice) else fresh(x)
    def __iter__(self): return (fresh(x) for x in list.__iter__(self))
    def __add__(self, other): return FreshNames(list(list.__iter__(self)) + list(other))

def mk_graph(n, edges, rng=None, style=None):
    """edges: list of (i, j, k) with i != j over ids 0..n-1 (ids are positions in sorted-name order)."""
    if style is None:
        style = rng.randrange(len(NAME_STYLES)) if rng else 0
    if len(NAME_STYLES[style](n)) < n: style = 3 if style % 2 else 0      # the decorated styles have ten names; larger graphs use v<i> or the descending numbers
    names = sorted(NAME_STYLES[style](n))
    m = {}
    for i, j, k in edges:
        a, b = min(i, j), max(i, j)
        m[(a, b)] = m.get((a, b), 0) + k
    return {"n": n, "names": names, "edges": sorted([a, b, k] for (a, b), k in m.items())}

def mk_graph_like(G, edges):
    """same vertex names as G, the given edge list (parallel entries merged)."""
    m = {}
    for i, j, k in edges:
        a, b = min(i, j), max(i, j); m[(a, b)] = m.get((a, b), 0) + k
    return {"n": G["n"], "names": list(G["names"]), "edges": sorted([a, b, k] for (a, b), k in m.items())}

def matrix(G):
    n = G["n"]; M = [[0] * n for _ in range(n)]
    for a, b, k in G["edges"]:
        M[a][b] += k; M[b][a] += k
    return M

def is_connected(G):
    n = G["n"]
    if n == 0: return False
    M = matrix(G); seen = {0}; st = [0]
    while st:
        u = st.pop()
        for w in range(n):
            if M[u][w] and w not in seen: seen.add(w); st.append(w)
    return len(seen) == n

def genus(G):
    return sum(k for _, _, k in G["edges"]) - G["n"] + 1

def fam_path(n): return [(i, i + 1, 1) for i in range(n - 1)]
def fam_cycle(n): return fam_path(n) + ([(n - 1, 0, 1)] if n >= 3 else [])
def fam_star(n): return [(0, i, 1) for i in range(1, n)]
def fam_complete(n): return [(i, j, 1) for i in range(n) for j in range(i + 1, n)]
def fam_wheel(n): return fam_star(n) + ([(i, i + 1, 1) for i in range(1, n - 1)] + ([(n - 1, 1, 1)] if n >= 4 else []))
def fam_multipartite(parts):
    ids = []; c = 0
    for p in parts:
        ids.append(list(range(c, c + p))); c += p
    return c, [(a, b, 1) for x in range(len(ids)) for y in range(x + 1, len(ids)) for a in ids[x] for b in ids[y]]
def fam_barbell(n):
    h = n // 2
    return [(i, j, 1) for i in range(h) for j in range(i + 1, h)] + [(i, j, 1) for i in range(h, n) for j in range(i + 1, n)] + [(h - 1, h, 1)]
def fam_ladder(n):
    h = n // 2
    return [(i, i + 1, 1) for i in range(h - 1)] + [(h + i, h + i + 1, 1) for i in range(h - 1)] + [(i, h + i, 1) for i in range(h)]

def random_connected_graph(rng, nmin=1, nmax=6, multi=True, large_ok=False):
    n = rng.randint(nmin, nmax)
    if large_ok and rng.random() < 0.06: n = rng.randint(9, 10)      # beyond the small sizes: size thresholds inside the library are crossed
    fam = rng.choice(["path", "cycle", "star", "complete", "wheel", "barbell", "ladder", "tree", "gnp", "gnp", "gnp", "multi", "heavytree", "heavytree", "regularmulti"])
    if n <= 1: return mk_graph(1, [], rng), "single"
    if fam == "regularmulti" and n >= 3:
        # valence-regular multigraphs that are NOT simple: even cycles with alternating multiplicities (a, b) - with a + b = |V| - 1 every valence equals
        # that of the complete graph -, complete graphs with a uniform multiplicity, cycles with a uniform multiplicity
        kind = rng.choice(["altcycle_kn", "altcycle", "thick_complete", "thick_cycle"])
        if kind.startswith("altcycle"):
            if n % 2: n += 1
            if n > max(nmax, 4): n -= 2
            a = rng.randint(1, n - 2) if kind == "altcycle_kn" else rng.randint(1, 3); b = (n - 1 - a) if kind == "altcycle_kn" else rng.randint(1, 3)
            e = [(i, (i + 1) % n, a if i % 2 == 0 else b) for i in range(n)]
        elif kind == "thick_complete":
            n = min(n, 5); k = rng.randint(2, 3); e = [(i, j, k) for i in range(n) for j in range(i + 1, n)]
        else:
            k = rng.randint(2, 3); e = [(i, (i + 1) % n, k) for i in range(n)]
        perm = list(range(n)); rng.shuffle(perm)
        return mk_graph(n, [(perm[i], perm[j], k) for i, j, k in e], rng), fam
    if fam == "heavytree":
        # trees (plus at most one extra edge) with large multiplicities: borrowing ping-pongs along heavy edges far from the sink
        e = [(i, rng.randrange(i), rng.choice([1, 1, 2, 3, 4, 5])) for i in range(1, n)]
        if n >= 3 and rng.random() < 0.3:
            a, b = rng.sample(range(n), 2); e.append((a, b, rng.choice([1, 2])))
        perm = list(range(n)); rng.shuffle(perm)
        return mk_graph(n, [(perm[i], perm[j], k) for i, j, k in e], rng), fam
    if fam == "path": e = fam_path(n)
    elif fam == "cycle": e = fam_cycle(n)
    elif fam == "star": e = fam_star(n)
    elif fam == "complete": e = fam_complete(n)
    elif fam == "wheel": e = fam_wheel(n)
    elif fam == "barbell" and n >= 4: e = fam_barbell(n)
    elif fam == "ladder" and n >= 4 and n % 2 == 0: e = fam_ladder(n)
    else:
        # random spanning tree + extra edges
        perm = list(range(n)); rng.shuffle(perm)
        e = [(perm[i], perm[rng.randrange(i)], 1) for i in range(1, n)]
        if fam != "tree":
            p = rng.choice([0.2, 0.5, 0.8])
            e += [(i, j, 1) for i in range(n) for j in range(i + 1, n) if rng.random() < p]
            # merge duplicates into simple unless multi family
            if fam != "multi":
                e = [(a, b, 1) for (a, b) in sorted({(min(i, j), max(i, j)) for i, j, _ in e})]
    if multi and rng.random() < 0.4:
        e = [(i, j, rng.choice([1, 1, 2, 3, 4, 7]) * k) for i, j, k in e]
    # relabel vertices randomly so that the sink/BFS structure is not tied to ids
    perm = list(range(n)); rng.shuffle(perm)
    e = [(perm[i], perm[j], k) for i, j, k in e]
    return mk_graph(n, e, rng), fam

def add_isolated(rng, G, k=None):
    """the same multigraph plus k isolated vertices (new names sorted in: ids are positions in sorted-name order)"""
    k = k or rng.randint(1, 2); pool = [x for x in ("iso_a", "Z_iso", "0iso", "mm_iso") if x not in G["names"]][:k]
    names = sorted(G["names"] + pool); pos = {nm: i for i, nm in enumerate(names)}
    return {"n": len(names), "names": names, "edges": sorted([min(pos[G["names"][a]], pos[G["names"][b]]), max(pos[G["names"][a]], pos[G["names"][b]]), m] for a, b, m in G["edges"])}

def thin_cut_game(rng):
    """two dense clusters (no vertex of small valence) joined by a thin cut, and a sparse divisor: a little debt and a little wealth near the cut"""
    a = rng.choice([2, 3, 3, 4]); b = rng.choice([2, 3, 3, 4]); n = a + b
    km = rng.choice([1, 2, 2, 3])          # multiplicity inside the clusters
    e = [(i, j, km) for i in range(a) for j in range(i + 1, a)] + [(a + i, a + j, km) for i in range(b) for j in range(i + 1, b)]
    cut = rng.choice([1, 1, 2])
    e.append((a - 1, a, cut))
    if rng.random() < 0.3 and a >= 2 and b >= 2: e.append((0, n - 1, 1))
    G = mk_graph(n, e, rng)
    D = [0] * n
    for _ in range(rng.randint(1, 3)): D[rng.choice([a - 1, a, rng.randrange(n)])] += rng.choice([-2, -1, -1, 1, 1, 2])
    return G, D

def scale_game(rng, G, D):
    """the same game scaled beyond 2^53: every multiplicity times M, every chip count times M plus a small offset (exact integers needed)"""
    M = 2 ** rng.choice([54, 60, 62, 64, 70]) + rng.choice([0, 1, 1])
    G2 = dict(G); G2["edges"] = [[a, b, k * M] for a, b, k in G["edges"]]
    return G2, [M * x + rng.randint(-2, 2) for x in D]

def random_divisor(rng, G, band=None, big=False):
    """stratified: number of indebted vertices, ties for the minimum, degree band relative to genus"""
    n = G["n"]; g = max(0, genus(G))
    mag = rng.choice([2, 4, 8]) if not big else 2 ** rng.choice([20, 40, 62, 64, 70])
    D = [rng.randint(-mag, mag) for _ in range(n)]
    nd = rng.randint(0, n)
    for i in range(n):
        if i < nd and D[i] > 0: D[i] = -D[i]
        elif i >= nd and D[i] < 0: D[i] = -D[i]
    rng.shuffle(D)
    if band is None: band = rng.choice(["neg", "low", "mid", "high", "any", "any", "edge", "edge"])
    if band == "edge":   # many small debts, total degree just around the genus: verdicts are sensitive to exact reduction
        D = [rng.randint(-3, 3) for _ in range(n)]
        if n > 0:
            j = rng.randrange(n); D[j] += rng.randint(0, max(0, g + 2)) - sum(D)
        return D
    tgt = None
    if band == "neg": tgt = rng.randint(-3, -1)
    elif band == "low" and g >= 1: tgt = rng.randint(0, max(0, g - 1))
    elif band == "mid": tgt = rng.randint(g, max(g, 2 * g - 2))
    elif band == "high": tgt = rng.randint(max(0, 2 * g - 1), 2 * g + 2)
    if tgt is not None and n > 0:
        i = rng.randrange(n); D[i] += tgt - sum(D)
    if rng.random() < 0.3 and n >= 2:   # force a tie for the minimum
        mn = min(D); i = D.index(mn); j = rng.choice([x for x in range(n) if x != i]); d = D[j] - mn; D[j] = mn
        k = rng.choice([x for x in range(n) if x not in (i, j)] or [i]);
        if k != i: D[k] += d
    return D

# ---------------------------------------------------------------- the implementation side (run inside impl_worker)
_SHARED = None     # inside a growth history: one graph object per case, reused by every call (see add_growth)
def build_impl_graph(G, rng=None):
    if _SHARED is not None:
        if "g" not in _SHARED: _SHARED["g"] = _build_impl_graph(G, rng)
        return _SHARED["g"]
    return _build_impl_graph(G, rng)
def _build_impl_graph(G, rng=None):
    from chipfiring import CFGraph
    names = G["names"]; edges = [(fresh(names[a]), fresh(names[b]), k) for a, b, k in G["edges"]]     # equal strings, distinct objects
    later = []
    if rng is not None:
        # the same multigraph supplied in different ways: endpoint order, edge order, multiplicities split into
        # repeated triples (merged by the constructor / add_edges) or added afterwards by separate add_edge calls
        split = []
        for a, b, k in edges:
            while k >= 2 and rng.random() < 0.35:
                part = rng.randint(1, k - 1); k -= part
                (later if rng.random() < 0.4 else split).append((a, b, part))
            split.append((a, b, k))
        edges = [(b, a, k) if rng.random() < 0.5 else (a, b, k) for a, b, k in split]
        rng.shuffle(edges)
    import warnings
    with warnings.catch_warnings():
        warnings.simplefilter("ignore")
        vs = set()
        order = list(names)
        if rng is not None: rng.shuffle(order)     # same set, other insertion order: with colliding hashes the set (hence every dict built from it) iterates differently
        for nm in order: vs.add(fresh(nm))
        g = CFGraph(vs, edges)
        for a, b, k in later:
            if rng.random() < 0.5: g.add_edge(b, a, k)
            else: g.add_edges([(a, b, k)])
    return g

def build_impl_divisor(G, D, graph=None, rng=None):
    from chipfiring import CFDivisor
    g = graph if graph is not None else build_impl_graph(G, rng)
    degs = [(fresh(G["names"][i]), D[i]) for i in range(G["n"])]
    if rng is not None: rng.shuffle(degs)
    return CFDivisor(g, degs)

def div_to_list(G, d):
    out = []
    for nm in G["names"]:
        x = d.get_degree(nm)
        if type(x) is not int:
            return {"non_int": type(x).__name__}
        out.append(x)
    return out

# ---------------------------------------------------------------- the model side
def enc_graph(G):
    M = matrix(G)
    return [G["n"]] + [x for r in M for x in r]
def enc_list(l): return [len(l)] + list(l)

def run_model(lines):
    """lines: list of token lists; returns list of output token lists (strings)."""
    inp = "\n".join(" ".join(str(t) for t in ln) for ln in lines) + "\n"
    p = subprocess.run([DRIVER], input=inp, capture_output=True, text=True)
    if p.returncode != 0:
        raise RuntimeError("model driver failed: " + p.stderr[-2000:])
    out = p.stdout.split("\n")
    if out and out[-1] == "": out.pop()
    if len(out) != len(lines):
        raise RuntimeError("model driver returned %d lines for %d queries: %s" % (len(out), len(lines), p.stderr[-500:]))
    return [o.split() for o in out]

# ---------------------------------------------------------------- running the implementation under hash seeds
def run_impl(prop, cases, seeds, extra_env=None, timeout=3000):
    os.makedirs(SCRATCH, exist_ok=True)
    results = {}
    procs = []
    for s in seeds:
        tag = "%s_%d_%d" % (prop, os.getpid(), s)        # unique per process: checks of the same property may run concurrently
        inp = os.path.join(SCRATCH, "%s_cases.json" % tag); outp = os.path.join(SCRATCH, "%s_out.json" % tag)
        with open(inp, "w") as f: json.dump(cases, f)
        env = dict(os.environ); env.update({"PYTHONPATH": REPO + os.pathsep + os.path.join(VERIF, "harness"), "PYTHONHASHSEED": str(s), "PYTHONUTF8": "1",
                                            "PYTHONDONTWRITEBYTECODE": "1", "CF_REPO": REPO})
        if extra_env: env.update(extra_env)
        procs.append((s, outp, subprocess.Popen([PY, os.path.join(VERIF, "harness", "impl_worker.py"), prop, inp, outp], env=env,
                                                stdout=subprocess.DEVNULL, stderr=subprocess.PIPE, text=True)))
    for s, outp, p in procs:
        try:
            _, err = p.communicate(timeout=timeout)
        except subprocess.TimeoutExpired:
            p.kill(); raise RuntimeError("implementation worker timed out (seed %d)" % s)
        if p.returncode != 0:
            raise RuntimeError("implementation worker failed (seed %d): %s" % (s, err[-3000:]))
        with open(outp) as f: results[s] = json.load(f)
        os.remove(outp)
        try: os.remove(outp.replace("_out.json", "_cases.json"))
        except OSError: pass
    return results

def sha(obj):
    return hashlib.sha1(json.dumps(obj, sort_keys=True, default=str).encode()).hexdigest()[:12]

# ---------------------------------------------------------------- helpers used by several property modules (implementation side)
def impl_reduce_q(G, D, q, rng=None):
    """q-reduce D with respect to the given sink through the public DharAlgorithm API (same loop as algo.EWD)."""
    from chipfiring.CFDhar import DharAlgorithm
    d = build_impl_divisor(G, D, rng=rng)
    dh = DharAlgorithm(d.graph, d, G["names"][q])
    unb, ori = dh.run()
    guard = 0
    while len(unb) > 0:
        dh.legal_set_fire(unb); unb, ori = dh.run(); guard += 1
        if guard > 100000: raise RuntimeError("reduction loop does not stop")
    return div_to_list(G, dh.configuration.divisor), ori

def orientation_pairs(G, ori):
    idx = {nm: i for i, nm in enumerate(G["names"])}
    out = []
    for a, b, k in G["edges"]:
        r = ori.get_orientation(G["names"][a], G["names"][b])
        if r is not None: out.append([idx[r[0]], idx[r[1]]])
    return out

def toposort_pos(n, pairs):
    """positions in a topological order of the orientation (Kahn); arbitrary completion if cyclic"""
    indeg = [0] * n; adj = [[] for _ in range(n)]
    for a, b in pairs: adj[a].append(b); indeg[b] += 1
    order = []; ready = [v for v in range(n) if indeg[v] == 0]
    while ready:
        v = ready.pop(0); order.append(v)
        for w in adj[v]:
            indeg[w] -= 1
            if indeg[w] == 0: ready.append(w)
    order += [v for v in range(n) if v not in order]
    pos = [0] * n
    for i, v in enumerate(order): pos[v] = i
    return pos

def lap_apply(G, D, s):
    M = matrix(G); n = G["n"]
    return [D[v] - sum(M[v][w] * (s[v] - s[w]) for w in range(n)) for v in range(n)]

def min_vertices(D):
    mn = min(D); return [i for i, x in enumerate(D) if x == mn]

class RaisingPool:
    """stand-in for multiprocessing.Pool: unusable worker pool -> CFRank falls back to sequential evaluation"""
    def __init__(self, *a, **k): raise OSError("worker pool unavailable (harness stub)")
class InProcessPool:
    """stand-in for multiprocessing.Pool that evaluates in-process, in reverse order (an 'unordered' pool)"""
    def __init__(self, *a, **k): pass
    def __enter__(self): return self
    def __exit__(self, *a): return False
    def imap_unordered(self, f, it):
        items = list(it); items.reverse()
        for x in items: yield f(x)
    def terminate(self): pass


def add_growth(ns, prob=0.25):
    """History variant for single-call checks: on a fraction of the cases every call of the case is made on ONE graph object, then the same
    object grows by an edge (add_edge) and every call is made again; the answers must be those for the graph as it is now (verified model on the
    grown graph). This is what exposes caches keyed on object identity and derived quantities (genus, valences, canonical divisor) kept stale."""
    import random as _r
    gen0, impl0, ml0, judge0, oracle0 = ns["gen"], ns["impl"], ns["model_lines"], ns["judge"], ns.get("oracle")
    two = ns.get("TWO_STAGE", False)
    def grown(c): return dict(c, G=mk_graph_like(c["G"], c["G"]["edges"] + [c["grow"]]), grow=None)
    def gen(rng, tier):
        cs = gen0(rng, tier); r2 = _r.Random(rng.randrange(1 << 30))
        for c in cs:
            n = c["G"]["n"]
            if n >= 2 and c.get("fam") != "exhaustive" and r2.random() < prob:
                a, b = r2.sample(range(n), 2); c["grow"] = [a, b, r2.randint(1, 2)]
        return cs
    def impl(c):
        global _SHARED
        if not c.get("grow"): return impl0(c)
        _SHARED = {}
        try:
            first = impl0(c)
            a, b, k = c["grow"]; names = c["G"]["names"]
            g = _SHARED.get("g")
            if g is None: g = build_impl_graph(c["G"], _r.Random(c.get("s", 0)))
            g.add_edge(names[a], names[b], k)
            return {"first": first, "after": impl0(grown(c))}
        finally:
            _SHARED = None
    def _ml(c, o): return ml0(c, {"ok": o}) if two else ml0(c)
    def model_lines(c, r=None):
        if not c.get("grow"): return ml0(c, r) if two else ml0(c)
        if two and (r is None or "ok" not in r): return ml0(c, r)
        o = r["ok"] if two else None
        return _ml(c, o["first"] if two else None) + _ml(grown(c), o["after"] if two else None)
    def judge(c, r, mo):
        if not c.get("grow") or "exc" in r: return judge0(c, r, mo)
        o = r["ok"]; k1 = len(_ml(c, o["first"]))
        out = judge0(c, {"ok": o["first"]}, mo[:k1])
        if not out:
            out = judge0(grown(c), {"ok": o["after"]}, mo[k1:])
            for x in out: x["what"] = "after add_edge%s on the same graph object: %s" % (tuple(c["grow"]), x["what"])
        return out
    def oracle(c, r):
        if not c.get("grow") or r is None or "exc" in r: return oracle0(c, r)
        a = oracle0(c, {"ok": r["ok"]["first"]})
        if a and a.get("violates"): return a
        b = oracle0(grown(c), {"ok": r["ok"]["after"]})
        if b: b["history"] = "after add_edge%s" % (tuple(c["grow"]),)
        return b
    ns.update({"gen": gen, "impl": impl, "model_lines": model_lines, "judge": judge})
    if oracle0: ns["oracle"] = oracle
    ns["RULE"] = ns.get("RULE", "") + "; on %d%% of the cases a growth history: all calls on one graph object, add_edge on that object, all calls again" % int(prob * 100)


def arith_divisor(G, D, rng, graph=None):
    """the divisor D on G, obtained as the RESULT of divisor arithmetic (k*H + R, A - B, -(-D)) instead of a constructor call"""
    how = rng.choice(["rmul", "rmul", "mul", "sub", "neg"])
    if how == "rmul":        # a bare product k * H (no further operation on the result): k = -1 always divides, other factors when they do
        ks = [k for k in (2, 3, -2, 5) if all(x % k == 0 for x in D)] + [-1, -1]; k = rng.choice(ks)
        d = k * build_impl_divisor(G, [x // k for x in D], graph=graph, rng=rng)
    elif how == "mul":
        k = rng.choice([2, 3, -1, -2]); H = [x // k for x in D]; R = [x - k * h for x, h in zip(D, H)]
        h = build_impl_divisor(G, H, graph=graph, rng=rng); r = build_impl_divisor(G, R, graph=h.graph, rng=rng); d = k * h + r
    elif how == "sub":
        A = [rng.randint(-5, 5) for _ in D]; a = build_impl_divisor(G, [x + y for x, y in zip(D, A)], graph=graph, rng=rng); b = build_impl_divisor(G, A, graph=a.graph, rng=rng); d = a - b
    else:
        d = -build_impl_divisor(G, [-x for x in D], graph=graph, rng=rng)
    assert div_to_list(G, d) == list(D), "harness: arithmetic did not produce the intended divisor (C12 reports that)"
    return d


def midsize_multigraph(rng, lo=7, hi=9):
    """a random tree on lo..hi vertices plus a few extra edges, every edge with multiplicity 1..3 (rules that switch behaviour once 'most of the graph' has
    burnt / fired need more vertices than the small families have, and multi-edges to matter)"""
    n = rng.randint(lo, hi); e = {}
    for v in range(1, n): e[(rng.randrange(v), v)] = rng.choice([1, 1, 2, 3])
    for _ in range(rng.randint(1, 4)):
        a, b = sorted(rng.sample(range(n), 2)); e[(a, b)] = rng.choice([1, 2, 2, 3])
    return mk_graph(n, [(a, b, k) for (a, b), k in sorted(e.items())], rng)

def cut_transfer_game(rng):
    """two dense clusters joined by a thin cut; the divisor is a tiny effective divisor E moved across the cut by firing one side (E - L*1_A or E + L*1_A),
    sometimes nudged by one chip: in debt, (mostly) winnable, and with fewer chips in circulation than the smallest valence of any vertex"""
    a = rng.choice([2, 3, 3, 4]); b = rng.choice([2, 3, 3, 4]); n = a + b; km = rng.choice([1, 2, 2, 3])
    e = [(i, j, km) for i in range(a) for j in range(i + 1, a)] + [(a + i, a + j, km) for i in range(b) for j in range(i + 1, b)]
    e.append((a - 1, a, rng.choice([1, 1, 2])))
    G = mk_graph(n, e, rng); M = matrix(G)
    E = [0] * n
    if rng.random() < 0.5: E[rng.randrange(n)] += 1
    side = list(range(a)) if rng.random() < 0.5 else list(range(a, n))
    sg = rng.choice([1, -1])
    D = [E[v] - sg * sum((sum(M[v]) if v == w else -M[v][w]) for w in side) for v in range(n)]
    if rng.random() < 0.3: D[rng.randrange(n)] += rng.choice([-1, 1])
    return G, D
