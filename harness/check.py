#!/venv/bin/python
"""check.py <PROPERTY> [--tier quick|thorough] [--replay FILE]

One run = (1) the proof obligations of the property re-checked by coqc from source,
          (2) the correspondence between the verified reference model (extracted to OCaml) and the
              implementation imported from /repo's working tree, on generated cases under several hash seeds,
          (3) on any broken obligation: a search for a concrete failing input with the definition-level oracle,
          (4) evidence/<id>.json.
Exit 0: property held on everything explored. Exit 1 + "VIOLATION property=<id> replay=<path>" otherwise.
"""
import sys, os, json, time, random, subprocess, re, glob, importlib, argparse, traceback
sys.path.insert(0, os.path.dirname(os.path.abspath(__file__)))
import common
from common import VERIF, COQ, REPO, EVID, REPLAYS

FORBIDDEN = re.compile(r"\b(Admitted|admit|Axiom|Axioms|Parameter|Parameters|Conjecture|Conjectures|Admit Obligations|Unset Guard Checking|Unset Positivity Checking|Unset Universe Checking|bypass_check|Hypothesis|Hypotheses|Variable|Variables)\b")
ALLOWED_AXIOMS = set()   # the development is axiom free; anything Print Assumptions lists is reported

def sh(cmd, timeout, cwd=None):
    try:
        p = subprocess.run(cmd, shell=True, cwd=cwd, capture_output=True, text=True, timeout=timeout)
        return p.returncode, p.stdout + p.stderr
    except subprocess.TimeoutExpired as e:
        return 124, "TIMEOUT after %ss: %s" % (timeout, cmd)

def scan_forbidden():
    """No Admitted/admit/Axiom/Parameter/...; Variable/Hypothesis only inside a Section."""
    bad = []
    files = glob.glob(os.path.join(COQ, "theories", "**", "*.v"), recursive=True) + [os.path.join(VERIF, "ocaml", "Extract.v")]
    for f in files:
        depth = 0
        txt = open(f).read()
        txt = re.sub(r"\(\*.*?\*\)", lambda m: "\n" * m.group(0).count("\n"), txt, flags=re.S)
        for ln, line in enumerate(txt.split("\n"), 1):
            if re.match(r"\s*Section\b", line): depth += 1
            if re.match(r"\s*End\b", line) and depth > 0: depth -= 1
            for m in FORBIDDEN.finditer(line):
                w = m.group(1)
                if w in ("Variable", "Variables", "Hypothesis", "Hypotheses") and depth > 0: continue
                bad.append("%s:%d: %s" % (os.path.relpath(f, VERIF), ln, w))
    return bad

TRANSLATED_USERS = {"C10", "C13", "C19"}
IMP_USERS = {"CFDivisor": {"C05", "C12", "C20"}, "CFGraph": {"C13", "C20"}, "CFiringScript": {"C06", "C20"}, "CFConfig": {"C10"}, "CFOrientation": {"C11", "C20"}, "CFConfigMoves": {"C05", "C10"}, "CFLaplacian": {"C06"}, "DharAlgorithm": {"C08"}}
def proof_stage(pid, tier, log):
    """returns dict(obligations, discharged, names, failures[list of str], assumptions)"""
    res = {"obligations": 0, "discharged": 0, "theorems": [], "failures": [], "axioms": []}
    bad = scan_forbidden()
    if bad:
        res["failures"].append("forbidden constructs: " + "; ".join(bad[:10]))
    pre = getattr(importlib.import_module("props." + pid.lower()), "pre_proof", None)
    if pre: pre(log)
    # the translated part of the model is regenerated from /repo's current source on every run (fail-closed translator)
    rc_t, out_t = sh("python3 %s" % os.path.join(VERIF, "tools", "translate.py"), 120, VERIF)
    log.append("translate: rc=%d %s" % (rc_t, out_t[-500:]))
    if rc_t != 0 and pid in TRANSLATED_USERS:
        res["failures"].append("the source translator no longer accepts a translated function (%s)" % out_t.strip()[-300:])
    # ... and so are the dictionary-mutating methods of CFDivisor (C05) and CFGraph (C13), one generated file per class
    rc_i, out_i = sh("python3 %s" % os.path.join(VERIF, "tools", "translate_imp.py"), 120, VERIF)
    log.append("translate_imp: rc=%d %s" % (rc_i, out_i[-500:]))
    for cls, users in IMP_USERS.items():
        if pid in users and (("TRANSLATOR-UNSUPPORTED[%s]" % cls) in out_i or (rc_i != 0 and "TRANSLATOR-UNSUPPORTED[" not in out_i)):
            res["failures"].append("the source translator no longer accepts a translated method of %s (%s)" % (cls, out_i.strip()[-300:]))
    if not os.path.exists(os.path.join(COQ, "Makefile")):
        sh("coq_makefile -f _CoqProject -o Makefile", 120, COQ)
    # only this property's theorems and what they depend on: a broken proof elsewhere is reported by the property it belongs to
    rc, out = sh("make -j16 theories/Props/%s.vo" % pid, 3000, COQ)
    log.append("make: rc=%d\n%s" % (rc, out[-3000:]))
    pf = os.path.join(COQ, "theories", "Props", pid + ".v")
    src = open(pf).read()
    names = re.findall(r"^Print Assumptions\s+([A-Za-z0-9_'.]+)\s*\.", src, flags=re.M)
    res["obligations"] = len(names); res["theorems"] = names
    if rc != 0:
        m = re.search(r'File "([^"]+)", line (\d+)', out)
        res["failures"].append("the Coq development does not build (make rc=%d)%s" % (rc, (" at %s:%s" % (m.group(1), m.group(2))) if m else ""))
        return res
    # recompile the property file itself from source and read what the kernel says about each theorem
    rc, out = sh("coqc -Q theories CF theories/Props/%s.v" % pid, 1800, COQ)
    log.append("coqc Props/%s.v: rc=%d\n%s" % (pid, rc, out[-3000:]))
    if rc != 0:
        res["failures"].append("Props/%s.v does not compile" % pid); return res
    blocks = re.split(r"(?=Closed under the global context|Axioms:)", out)
    blocks = [b for b in blocks if b.startswith("Closed under") or b.startswith("Axioms:")]
    if len(blocks) != len(names):
        res["failures"].append("expected %d Print Assumptions answers, got %d" % (len(names), len(blocks)))
    for nm, b in zip(names, blocks):
        if b.startswith("Closed under"):
            res["discharged"] += 1
        else:
            ax = re.findall(r"^([A-Za-z0-9_.']+)\s*:", b, flags=re.M)
            res["axioms"].append({nm: ax})
            if set(ax) <= ALLOWED_AXIOMS: res["discharged"] += 1
            else: res["failures"].append("theorem %s depends on axioms %s" % (nm, ax))
    if tier == "thorough":
        rc, out = sh("coqchk -silent -o -Q theories CF CF.Props.%s" % pid, 3000, COQ)
        log.append("coqchk: rc=%d\n%s" % (rc, out[-3000:]))
        res["coqchk"] = out[-1500:]
        if rc != 0: res["failures"].append("coqchk rejected CF.Props.%s" % pid)
    return res

def ensure_driver(log):
    drv = common.DRIVER
    srcs = glob.glob(os.path.join(COQ, "theories", "Model", "*.v")) + glob.glob(os.path.join(COQ, "theories", "Base", "*.v")) + \
        [os.path.join(COQ, "theories", "Theory", x) for x in ("Defs.v", "Burn.v")] + glob.glob(os.path.join(VERIF, "ocaml", "*.ml")) + [os.path.join(VERIF, "ocaml", "Extract.v")]
    if os.path.exists(drv) and all(os.path.getmtime(s) <= os.path.getmtime(drv) for s in srcs if os.path.exists(s)):
        return True
    rc, out = sh(os.path.join(VERIF, "ocaml", "build.sh"), 1800)
    log.append("driver build rc=%d %s" % (rc, out[-2000:]))
    return rc == 0

def load_known():
    p = os.path.join(VERIF, "known_findings.json")
    if not os.path.exists(p): return []
    return [k for k in json.load(open(p))["findings"] if k.get("status") == "known"]

def write_replay(pid, payload):
    os.makedirs(REPLAYS, exist_ok=True)
    path = os.path.join(REPLAYS, "%s-%s.json" % (pid, common.sha(payload)))
    payload = dict(payload); payload["property"] = pid
    payload["replay_cmd"] = "/venv/bin/python /verif/harness/check.py %s --replay %s" % (pid, path)
    with open(path, "w") as f: json.dump(payload, f, indent=1, default=str)
    return path

def main():
    ap = argparse.ArgumentParser()
    ap.add_argument("pid"); ap.add_argument("--tier", default=os.environ.get("VERIF_TIER", "quick")); ap.add_argument("--replay")
    a = ap.parse_args()
    pid = a.pid.upper(); tier = a.tier if a.tier in ("quick", "thorough") else "quick"
    seed = int(os.environ.get("VERIF_SEED", "0") or 0)
    t0 = time.time(); log = []
    mod = importlib.import_module("props." + pid.lower())
    os.makedirs(EVID, exist_ok=True)
    violations = []      # list of (replay_path, suffix)
    known_lines = {}
    # ---------------------------------------------------------------- proofs
    # one build at a time: checks may be started concurrently and share coq/ and ocaml/_build
    import fcntl
    os.makedirs(os.path.join(VERIF, ".scratch"), exist_ok=True)
    if os.environ.get("CF_SKIP_PROOF") == "1":
        # tools/mutants.py only: correspondence against a scratch copy of /repo, the proof stage (which regenerates Translated.v from /repo) is left alone
        pr = {"obligations": 0, "discharged": 0, "theorems": [], "failures": [], "axioms": []}; drv_ok = os.path.exists(common.DRIVER)
    else:
      with open(os.path.join(VERIF, ".scratch", "build.lock"), "w") as lk:
        fcntl.flock(lk, fcntl.LOCK_EX)
        pr = proof_stage(pid, tier, log)
        drv_ok = ensure_driver(log)
        fcntl.flock(lk, fcntl.LOCK_UN)
    if not drv_ok: pr["failures"].append("the extracted model driver does not build")
    # ---------------------------------------------------------------- correspondence
    rng = random.Random((seed, pid, tier).__repr__())
    if a.replay:
        rp = json.load(open(a.replay)); cases = [rp["case"]] if "case" in rp else []
    else:
        cases = []
        corpus = os.path.join(VERIF, "harness", "corpus", pid + ".json")
        if os.path.exists(corpus): cases += json.load(open(corpus))
        cases += mod.gen(rng, tier)
    for i, c in enumerate(cases): c["_id"] = i
    seeds = mod.SEEDS[tier] if hasattr(mod, "SEEDS") else ([0, 1] if tier == "quick" else [0, 1, 2, 3, 4, 5, 6, 7])
    stats = {"cases": len(cases), "seeds": seeds, "impl_runs": 0, "diffs": 0, "impl_errors": 0, "model_fuel": 0}
    problems = []
    if drv_ok and cases:
        try:
            impl = common.run_impl(pid, cases, seeds, getattr(mod, "ENV", None))
            two_stage = getattr(mod, "TWO_STAGE", False)     # model queries depend on the implementation's output (checker mode)
            cache = None
            for s in seeds:
                if two_stage or cache is None:
                    lines = []; index = []
                    for c in cases:
                        ls = mod.model_lines(c, impl[s][c["_id"]]) if two_stage else mod.model_lines(c)
                        index.append((len(lines), len(ls))); lines += ls
                    mout = common.run_model(lines) if lines else []
                    cache = (index, mout)
                index, mout = cache
                for c, (o, k) in zip(cases, index):
                    mo = mout[o:o + k]
                    if any(x and x[0] == "FUEL" for x in mo): stats["model_fuel"] += 1
                    if any(x and x[0].startswith("ERROR") for x in mo):
                        problems.append({"case": c, "seed": s, "what": "model driver error: %s" % mo, "key": None}); continue
                    r = impl[s][c["_id"]]
                    if r.get("exc") == "NotRun": stats["not_run"] = stats.get("not_run", 0) + 1; continue
                    stats["impl_runs"] += 1
                    if "exc" in r and r["exc"] not in getattr(mod, "EXPECTED_EXC", ()): stats["impl_errors"] += 1
                    for pb in (mod.judge(c, r, mo) or []):
                        pb.update({"case": c, "seed": s, "impl": r, "model": mo}); problems.append(pb)
        except Exception as e:
            log.append(traceback.format_exc())
            pr["failures"].append("correspondence run failed: %s" % str(e)[:500])
    stats["diffs"] = len(problems)
    # ---------------------------------------------------------------- classify problems: known finding / violation with input / no input
    known = [k for k in load_known() if k["property"] == pid]
    seen = set(); confirmed = []; unconfirmed = []
    for pb in problems:
        key = pb.get("key")
        kf = next((k for k in known if k["key"] == key), None) if key else None
        if kf is not None:
            known_lines[key] = "KNOWN-FINDING: property=%s %s" % (pid, kf["what"]); stats["known_finding_hits"] = stats.get("known_finding_hits", 0) + 1; continue
        sig = (pb.get("what"), json.dumps(pb["case"], sort_keys=True, default=str))
        if sig in seen: continue
        seen.add(sig)
        orc = None
        try: orc = mod.oracle(pb["case"], pb.get("impl")) if hasattr(mod, "oracle") else None
        except Exception: log.append(traceback.format_exc())
        payload = {"obligation": pb.get("obligation", "correspondence(model = implementation)"), "what": pb["what"], "case": pb["case"],
                   "hash_seed": pb.get("seed"), "impl_observed": pb.get("impl"), "model": pb.get("model"), "oracle": orc}
        if orc and orc.get("violates"):
            confirmed.append(payload)
        else:
            payload["note"] = "implementation and verified model disagree but the definition-level oracle did not confirm a violation of the property on this input"
            unconfirmed.append(payload)
        if len(confirmed) >= 5 or len(confirmed) + len(unconfirmed) >= 40: break
    # disagreements that the definition-level oracle confirms as violations of the property come first (at most five lines in all)
    for payload in confirmed[:5]: violations.append((write_replay(pid, payload), ""))
    for payload in unconfirmed[:max(0, 5 - len(confirmed))]: violations.append((write_replay(pid, payload), " no-failing-input-found"))
    if pr["failures"] and not violations:
        # a proof / build obligation broke: look for a failing input over the whole case set with the oracle
        found = None
        if hasattr(mod, "oracle") and drv_ok is not None:
            try:
                impl0 = common.run_impl(pid, cases, seeds[:1], getattr(mod, "ENV", None))[seeds[0]] if cases else []
                for c in cases:
                    if impl0[c["_id"]].get("exc") == "NotRun": continue
                    o = mod.oracle(c, impl0[c["_id"]])
                    if o and o.get("violates"): found = (c, impl0[c["_id"]], o); break
                if not found and hasattr(mod, "search_cases"):
                    # a larger domain, used only to look for a concrete failing input once a proof obligation has broken
                    extra = mod.search_cases(random.Random((seed, pid, "search").__repr__()))
                    for i, c in enumerate(extra): c["_id"] = i
                    impl1 = common.run_impl(pid, extra, seeds[:1], getattr(mod, "ENV", None))[seeds[0]] if extra else []
                    for c in extra:
                        if impl1[c["_id"]].get("exc") == "NotRun": continue
                        o = mod.oracle(c, impl1[c["_id"]])
                        if o and o.get("violates"): found = (c, impl1[c["_id"]], o); break
            except Exception: log.append(traceback.format_exc())
        payload = {"obligation": "; ".join(pr["failures"]), "what": "proof obligation no longer checks", "theorems": pr["theorems"]}
        if found:
            payload.update({"case": found[0], "impl_observed": found[1], "oracle": found[2]}); violations.append((write_replay(pid, payload), ""))
        else:
            violations.append((write_replay(pid, payload), " no-failing-input-found"))
    # ---------------------------------------------------------------- evidence
    nontrivial = mod.nontrivial(cases) if hasattr(mod, "nontrivial") else len({json.dumps({k: v for k, v in c.items() if k != "_id"}, sort_keys=True, default=str) for c in cases})
    dist = mod.distribution(cases) if hasattr(mod, "distribution") else {}
    ev = {
        "property_id": pid, "tier": tier, "seed": seed, "level": "proof",
        "coverage": {
            "obligations": max(pr["obligations"], 1), "discharged": pr["discharged"] if not pr["failures"] else min(pr["discharged"], max(pr["obligations"] - 1, 0)),
            "checker_cmd": "python3 /verif/tools/translate.py; python3 /verif/tools/translate_imp.py; cd /verif/coq && make -j16 theories/Props/%s.vo && coqc -Q theories CF theories/Props/%s.v   (Print Assumptions under every property theorem%s)" % (pid, pid, "; coqchk -o" if tier == "thorough" else ""),
            "trusted_base": ["Coq 8.16.1 kernel (incl. vm_compute); no native_compute", "axioms: none (every property theorem prints 'Closed under the global context')" if not pr["axioms"] else "axioms: %s" % pr["axioms"],
                             "extraction: ExtrOcamlBasic only (bool, option, unit, list, prod, sumbool, sumor mapped; Z, positive, nat kept inductive); ocaml/driver.ml; Zarith for decimal I/O",
                             "harness: generators, canonicalisation, comparison (harness/*.py); oracle.py only for failing-input search",
                             ] + (["tools/translate.py (Python ast -> Gallina for the functions this property's *_source_* theorems speak about) and the Python built-in semantics restated in Base/PyLib.v"] if pid in TRANSLATED_USERS else []) + (["tools/translate_imp.py (Python ast -> Gallina for the dictionary-mutating methods this property's *_source_* theorems speak about), the dictionary / set semantics restated in Base/PyDict.v and the representation relations of Link/ImpRep.v"] if any(pid in u for u in IMP_USERS.values()) else []) + [
                             "the implementation is compared with the model on the generated cases of this run, not verified for all inputs"],
            "theorems": pr["theorems"], "proof_failures": pr["failures"],
            "evaluations": stats["impl_runs"], "distinct_nontrivial": nontrivial,
            "traces_validated_against_impl": stats["impl_runs"],
            "rule": getattr(mod, "RULE", "generated cases; non-trivial = distinct case"),
            "samples": [{k: v for k, v in c.items() if k != "_id"} for c in cases[:3]] or ["(none)"],
            "distribution": dist, "hash_seeds": seeds, "model_out_of_fuel_cases": stats["model_fuel"],
            "disagreements": stats["diffs"] - stats.get("known_finding_hits", 0), "known_finding_hits": stats.get("known_finding_hits", 0),
            "implementation_exceptions_unexpected": stats["impl_errors"],
            "known_findings_reported": sorted(known_lines),
            "explanation": getattr(mod, "EXPLANATION", ""),
        },
        "assumptions": getattr(mod, "ASSUMPTIONS", []),
        "wall_s": round(time.time() - t0, 2), "violations": len(violations),
    }
    with open(os.path.join(EVID, pid + ".json"), "w") as f: json.dump(ev, f, indent=1, default=str)
    with open(os.path.join(common.SCRATCH, pid + ".log") if os.path.isdir(common.SCRATCH) else os.devnull, "w") as f: f.write("\n".join(log))
    for l in known_lines.values(): print(l)
    print("%s tier=%s: %d/%d proof obligations discharged; %d cases x %d hash seeds, %d disagreements, %d model out-of-fuel; %.1fs" % (
        pid, tier, ev["coverage"]["discharged"], pr["obligations"], len(cases), len(seeds), stats["diffs"] - stats.get("known_finding_hits", 0), stats["model_fuel"], time.time() - t0))
    for path, suffix in violations:
        print("VIOLATION property=%s replay=%s%s" % (pid, path, suffix))
    sys.exit(1 if violations else 0)

if __name__ == "__main__":
    main()
