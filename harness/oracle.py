"""Definition-level reference implementations, independent of /repo and of the Coq model.
Used ONLY to look for a concrete failing input once a proof or correspondence obligation has broken
(and to validate the model while it was being written). Never a substitute for a theorem."""
import itertools
def mk(G):
    n = G["n"]; m = [[0] * n for _ in range(n)]
    for a, b, k in G["edges"]:
        m[a][b] += k; m[b][a] += k
    return m
def fire(m, D, S):
    D = list(D); n = len(D); S = set(S)
    for v in S:
        for w in range(n):
            if w not in S and m[v][w]:
                D[v] -= m[v][w]; D[w] += m[v][w]
    return D
def dist(m, q):
    n = len(m); d = [None] * n; d[q] = 0; fr = [q]
    while fr:
        nf = []
        for u in fr:
            for w in range(n):
                if m[u][w] and d[w] is None: d[w] = d[u] + 1; nf.append(w)
        fr = nf
    return d
def concentrate(m, D, q):
    """level-wise: fire everything closer to q until the level is debt free (a different algorithm from the code's)"""
    n = len(m); d = dist(m, q); D = list(D)
    for lev in range(max(d), 0, -1):
        S = {u for u in range(n) if d[u] < lev}
        cnt = 0
        while any(D[v] < 0 for v in range(n) if d[v] == lev):
            # fire S as many times as needed in one go
            D = fire(m, D, S); cnt += 1
    return D
def burn(m, D, q):
    n = len(m); B = {q}; ch = True
    while ch:
        ch = False
        for v in range(n):
            if v not in B and D[v] < sum(m[v][w] for w in B):
                B.add(v); ch = True
    return set(range(n)) - B
def qreduce(m, D, q):
    D = concentrate(m, D, q)
    while True:
        U = burn(m, D, q)
        if not U: return D
        D = fire(m, D, U)
def winnable(m, D):
    return qreduce(m, D, 0)[0] >= 0
def lin_equiv(m, D, E):
    return sum(D) == sum(E) and qreduce(m, D, 0) == qreduce(m, E, 0)
def outdeg(m, S, v): return sum(m[v][w] for w in range(len(m)) if w not in S)
def legal(m, D, S): return len(S) > 0 and all(D[v] >= outdeg(m, S, v) for v in S)
def subsets(xs):
    for r in range(1, len(xs) + 1):
        for c in itertools.combinations(xs, r): yield set(c)
def is_reduced(m, D, q):
    n = len(m)
    if any(D[v] < 0 for v in range(n) if v != q): return False
    return not any(legal(m, D, S) for S in subsets([v for v in range(n) if v != q]))
def rank(m, D, cap=40):
    if not winnable(m, D): return -1
    n = len(m); k = 1
    while k <= cap:
        for comb in itertools.combinations_with_replacement(range(n), k):
            E = list(D)
            for v in comb: E[v] -= 1
            if not winnable(m, E): return k - 1
        k += 1
    return None
def strategy_ok(m, D):
    return all(winnable(m, [D[i] - (i == v) for i in range(len(m))]) for v in range(len(m)))
def gonality(m, cap=None):
    n = len(m)
    for k in range(1, (cap if cap is not None else n) + 1):
        for comb in itertools.combinations_with_replacement(range(n), k):
            D = [0] * n
            for v in comb: D[v] += 1
            if strategy_ok(m, D): return k
    return -1
def connected(m):
    return len(m) > 0 and all(x is not None for x in dist(m, 0))
def lap_apply(m, D, s):
    n = len(m)
    return [D[v] - sum(m[v][w] * (s[v] - s[w]) for w in range(n)) for v in range(n)]
