"""Runs the implementation (imported from /repo's working tree via PYTHONPATH) on a list of cases.
Executed as a subprocess with a fixed PYTHONHASHSEED; every case is isolated in try/except and a per-case alarm."""
import sys, json, importlib, io, contextlib, warnings, traceback, os, signal
class CaseTimeout(BaseException): pass
def _alarm(signum, frame): raise CaseTimeout()
def main():
    prop, inp, outp = sys.argv[1:4]
    warnings.simplefilter("ignore")
    cov = None
    if os.environ.get("CF_COVERAGE"):       # measurement of what the checks execute in /repo (tools/coverage_report.sh); off in every registered command
        import coverage
        cov = coverage.Coverage(data_file=os.path.join(os.environ["CF_COVERAGE"], ".coverage"), data_suffix=True, source=[os.path.join(os.environ.get("CF_REPO", "/repo"), "chipfiring")])
        cov.start()
    import chipfiring
    repo = os.environ.get("CF_REPO", "/repo")
    assert os.path.abspath(chipfiring.__file__).startswith(os.path.abspath(repo) + os.sep), "chipfiring not imported from " + repo
    mod = importlib.import_module("props." + prop.lower())
    cases = json.load(open(inp))
    limit = float(os.environ.get("CF_CASE_TIMEOUT", "180"))      # generous: cases take milliseconds; the alarm only exists to turn a genuine hang into an answer, and must not fire under CPU contention
    signal.signal(signal.SIGALRM, _alarm)
    out = []
    sink = io.StringIO()
    hangs = 0
    for c in cases:
        if hangs >= 3:      # three cases did not answer: the rest of this worker's cases are not run (reported as not run, never as passing)
            out.append({"exc": "NotRun", "msg": "not run after three cases without an answer"}); continue
        try:
            signal.setitimer(signal.ITIMER_REAL, limit)
            with contextlib.redirect_stdout(sink):
                r = mod.impl(c)
            signal.setitimer(signal.ITIMER_REAL, 0)
            out.append({"ok": r})
        except CaseTimeout:
            out.append({"exc": "Timeout", "msg": "no answer within %gs" % limit})
            hangs += 1; limit = min(limit, 15.0)       # one case has already failed to answer: do not spend minutes on each further one
        except Exception as e:
            signal.setitimer(signal.ITIMER_REAL, 0)
            out.append({"exc": type(e).__name__, "msg": str(e)[:300], "tb": traceback.format_exc()[-1500:]})
        sink.seek(0); sink.truncate(0)
    json.dump(out, open(outp, "w"))
    if cov: cov.stop(); cov.save()
main()
